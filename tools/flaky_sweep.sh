#!/bin/bash
# maintainer tool: run every quick check N times on the unchanged tree; report checks whose exit code or
# signature set differs between runs (nondeterminism is a machinery defect, see DESIGN 2.6)
n="${1:-5}"; shift
ids="${@:-C01 C02 C03 C04 C05 C06 C07 C08 C09 C10 C11 C12 C13 C14 C15 C16 C17 C18 C19 C20}"
cd /verif || exit 2
out=/dev/shm/flaky.$$; mkdir -p $out
for id in $ids; do
  for i in $(seq 1 $n); do
    VERIF_SEED=$i ./check "$id" quick > $out/$id.$i.log 2>&1; rc=$?
    python3 - "$id" "$rc" >> $out/$id.sigs <<'PY'
import json,sys,hashlib
id,rc=sys.argv[1:3]
try:
    c=json.load(open(f'/verif/evidence/{id}.json'))['coverage']
    sigs=sorted(c.get('finding_signatures',[]))
    print(rc, hashlib.sha1('\n'.join(sigs).encode()).hexdigest()[:10], len(sigs), c.get('states'), c.get('transitions'))
except Exception as e:
    print(rc,'noevidence',e)
PY
  done
  u=$(sort -u $out/$id.sigs | wc -l)
  echo "$id distinct-outcomes=$u $(sort $out/$id.sigs | uniq -c | tr '\n' ';')"
done
rm -rf $out
