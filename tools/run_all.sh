#!/bin/bash
# maintainer tool: run every registered check of a tier, print exit code, wall time and the summary line
tier="${1:-quick}"; shift
ids="${@:-C01 C02 C03 C04 C05 C06 C07 C08 C09 C10 C11 C12 C13 C14 C15 C16 C17 C18 C19 C20}"
cd "$(dirname "$(readlink -f "$0")")/.." || exit 2
for id in $ids; do
  s=$(date +%s)
  out=$(./check "$id" "$tier" 2>&1); rc=$?
  e=$(date +%s)
  echo "$id rc=$rc $((e-s))s | $(echo "$out" | grep -E "^$id $tier:" | tail -1 | cut -c1-170)"
  if [ $rc -ne 0 ]; then echo "$out" | grep -E '^(VIOLATION|  signature|MACHINERY)' | head -6 | cut -c1-260; fi
done
