#!/bin/bash
# maintainer tool: try every kept seeded change against the quick check of its property (on the scratch mirror, see mh_try.sh)
# usage: tools/seed_regression.sh [ids...]   -> one line per seed: CAUGHT / MISSED / APPLY-FAILED
cd "$(dirname "$(readlink -f "$0")")/.." || exit 2
ids="${@:-$(ls seeded | sort)}"
for s in $ids; do
  p=${s%-*}
  if grep -q '"obsolete"' seeded/$s/meta.json 2>/dev/null; then echo "$s OBSOLETE"; continue; fi
  pf=seeded/$s/patch.diff; [ -f seeded/$s/patch.rebased.diff ] && pf=seeded/$s/patch.rebased.diff
  out=$(LINES_MAX=1 tools/mh_try.sh $pf $p 2>&1)
  if echo "$out" | grep -q "APPLY-FAILED"; then echo "$s APPLY-FAILED"; continue; fi
  rc=$(echo "$out" | grep -oE "^== $p rc=[0-9]+" | grep -oE "[0-9]+$")
  case "$rc" in 1) echo "$s CAUGHT" ;; 0) echo "$s MISSED" ;; *) echo "$s MACHINERY rc=$rc" ;; esac
done
