#!/bin/bash
# maintainer tool: confirm a seeded change in a scratch worktree (never in /repo):
#  (a) demo test alone: whole suite passes; (b) demo + change: only the demo test(s) fail.
# usage: verify_seed.sh <seed-dir> <worktree> ; writes <seed-dir>/verify.json
set -u
seed="$(realpath "$1")"; wt="$2"
cd "$wt" || exit 2
export CARGO_NET_OFFLINE=true
git reset -q --hard HEAD; git clean -qfd -e target
run() { cargo nextest run --workspace --no-fail-fast --offline 2>&1 | tee /tmp/verify_$$.log | grep -E '^\s+(FAIL|SIGABRT|SIGSEGV)|Summary|error(\[|:)' ; }
git apply "$seed/demo_test.patch" || { echo "demo patch failed"; exit 3; }
a=$(run); a_sum=$(echo "$a" | grep Summary)
git apply "$seed/patch.diff" || { echo "mutant patch failed"; git reset -q --hard HEAD; exit 3; }
b=$(run); b_sum=$(echo "$b" | grep Summary); b_fail=$(echo "$b" | grep -E '^\s+FAIL' | sed -E 's/^\s+FAIL \[[^]]*\]\s+(\([^)]*\)\s+)?//' | sort -u)
git reset -q --hard HEAD; git clean -qfd -e target
python3 - "$seed" "$a_sum" "$b_sum" "$b_fail" <<'PY'
import sys, json
seed, a, b, fails = sys.argv[1:5]
json.dump({"demo_alone_summary": a.strip(), "demo_plus_change_summary": b.strip(), "failing_tests_with_change": [f for f in fails.splitlines() if f.strip()]}, open(seed + "/verify.json", "w"), indent=1)
print(open(seed + "/verify.json").read())
PY
