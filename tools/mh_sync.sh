#!/bin/bash
# maintainer tool: mirror /verif's harness into /tmp/mh/verif (bound to the scratch worktree /tmp/mh/repo), so that
# seeded changes can be tried without touching /repo while other runs use it. Nothing registered in MANIFEST.json uses this.
set -u
mkdir -p /tmp/mh/verif
rsync -a --delete --exclude .target --exclude .git --exclude seeded --exclude replays --exclude evidence --exclude '.build.*' /verif/ /tmp/mh/verif/
mkdir -p /tmp/mh/verif/evidence /tmp/mh/verif/replays
sed -i 's#"/repo/crates/#"/tmp/mh/repo/crates/#' /tmp/mh/verif/harness/Cargo.toml
sed -i 's#/repo/#/tmp/mh/repo/#g' /tmp/mh/verif/harness/Cargo.lock 2>/dev/null
true
