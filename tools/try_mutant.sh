#!/bin/bash
# maintainer tool: apply a seeded change to /repo, run the given checks (tier via TIER, default quick), revert.
# usage: tools/try_mutant.sh <patch.diff> <C..> [<C..> ...]
set -u
patch="$(realpath "$1")"; shift
cd /repo || exit 2
if [ -n "$(git status --porcelain --untracked-files=no)" ]; then echo "repo dirty"; exit 2; fi
if ! git apply --3way "$patch" 2>/tmp/apply.err && ! git apply "$patch" 2>>/tmp/apply.err; then echo "APPLY-FAILED"; cat /tmp/apply.err; git reset -q --hard HEAD; exit 3; fi
for p in "$@"; do
  out=$(cd /verif && ./check "$p" "${TIER:-quick}" 2>&1); rc=$?
  echo "== $p rc=$rc"; echo "$out" | grep -E '^(VIOLATION|  signature|MACHINERY)' | cut -c1-300 | head -${LINES_MAX:-8}
  echo "$out" | tail -1 | cut -c1-200
done
git reset -q --hard HEAD
git status --porcelain --untracked-files=no | head -3
