#!/bin/bash
# maintainer tool: like try_mutant.sh but against the scratch worktree /tmp/mh/repo and the mirror /tmp/mh/verif.
# usage: tools/mh_try.sh <patch.diff> <C..> [<C..> ...]   (TIER=quick|thorough)
set -u
patch="$(realpath "$1")"; shift
/verif/tools/mh_sync.sh
cd /tmp/mh/repo || exit 2
git reset -q --hard HEAD
if ! git apply --3way "$patch" 2>/tmp/mh/apply.err && ! git apply "$patch" 2>>/tmp/mh/apply.err; then echo "APPLY-FAILED"; cat /tmp/mh/apply.err; git reset -q --hard HEAD; exit 3; fi
for p in "$@"; do
  out=$(cd /tmp/mh/verif && ./check "$p" "${TIER:-quick}" 2>&1); rc=$?
  echo "== $p rc=$rc"; echo "$out" | grep -E '^(VIOLATION|  signature|MACHINERY)' | cut -c1-300 | head -${LINES_MAX:-8}
  echo "$out" | tail -1 | cut -c1-200
done
git reset -q --hard HEAD
