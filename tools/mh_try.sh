#!/bin/bash
# maintainer tool: like try_mutant.sh but against the scratch worktree /tmp/mh/repo and the mirror /tmp/mh/verif.
# usage: tools/mh_try.sh <patch.diff> <C..> [<C..> ...]   (TIER=quick|thorough)
set -u
patch="$(realpath "$1")"; shift
# the scratch worktree is created on first use (remove it when done: git -C /repo worktree remove --force /tmp/mh/repo; rm -rf /tmp/mh)
if [ ! -d /tmp/mh/repo/.git ] && [ ! -f /tmp/mh/repo/.git ]; then mkdir -p /tmp/mh; git -C /repo worktree prune; git -C /repo worktree add --detach /tmp/mh/repo HEAD >/dev/null 2>&1 || exit 2; fi
/verif/tools/mh_sync.sh
cd /tmp/mh/repo || exit 2
git checkout -q --detach "$(git -C /repo rev-parse HEAD)" 2>/dev/null
git reset -q --hard HEAD
if ! git apply --3way "$patch" 2>/tmp/mh/apply.err && ! git apply "$patch" 2>>/tmp/mh/apply.err; then echo "APPLY-FAILED"; cat /tmp/mh/apply.err; git reset -q --hard HEAD; exit 3; fi
for p in "$@"; do
  out=$(cd /tmp/mh/verif && ./check "$p" "${TIER:-quick}" 2>&1); rc=$?
  echo "== $p rc=$rc"; echo "$out" | grep -E '^(VIOLATION|  signature|MACHINERY)' | cut -c1-300 | head -${LINES_MAX:-8}
  echo "$out" | tail -1 | cut -c1-200
done
git reset -q --hard HEAD
