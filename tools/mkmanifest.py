#!/usr/bin/env python3
"""Regenerates /verif/MANIFEST.json from the table below (kept here so the manifest is always valid)."""
import json, os, subprocess
HERE = os.path.dirname(os.path.dirname(os.path.abspath(__file__)))

CHECKS = {
 # id: (engine, category, technique, level text, level note, design ref)
 "C01": ("E1 mdkx", "model_checking",
         "explicit-state BFS of per-member reachable-state graphs over real MDK clients (all delivery orders incl. duplicates, both regimes, both own-commit modes), fork-tree scenarios enumerated from a small alphabet",
         "Every delivery order (with duplication) of a fixed pool of published events is explored per member on the real client; every state is re-offered to quiescence on the graph and compared with the MIP-03 reference computed from the scenario description. Exhaustive within the stated scenario bounds.",
         "Scenario bounds (members <= 5, pool <= 5 quick / <= 8 thorough, rounds <= 3); search-key abstraction argued in DESIGN 2.2 and guarded by trace re-execution; OpenMLS and RustCrypto trusted.",
         "3/C01"),
 "C02": ("E1 mdkx", "model_checking",
         "explicit-state BFS of per-member delivery graphs over message scenarios on real clients; per-edge integrity oracle and per-state exactly-once-valid oracle evaluated on the quiescent state each state settles into",
         "All interleavings (with duplication) of application messages with commits, races and rollbacks within the scenario bounds are explored on the real client; every state is judged by the quiescent state it settles into.",
         "Exactly-once-valid is required in the epoch-causal regime only (future-epoch messages are outside the stated windows); scenario bounds as C01; default MdkConfig in quick.",
         "3/C02"),
 "C07": ("E1 mdkx", "model_checking",
         "edge property on every explored per-member graph: every deliver(e) edge whose event already took effect in the source state must leave the observable fingerprint unchanged; plus an enumerated sender-side history (backend x rumor time x peer message before/between/never x 1..3 echoes of an own message) comparing every stored field incl. the wall-clock processing time",
         "Because every pool event is enabled in every state, re-delivery at any later point and any repetition count is part of each graph; each such edge is checked.",
         "'Already taken effect' is decided from the dedup record, the pending-commit flag and the scenario's fork tree; graphs as C01/C02.",
         "3/C07"),
 "C08": ("E1 mdkx", "model_checking",
         "state invariant evaluated on every state of every explored graph (record == MLS extension and epoch, relays == extension relays) plus scripted id-rotation routing histories",
         "Every reachable state of the C01/C02 graphs and of id-rotation scenarios is checked after every single step.",
         "Scenario bounds as C01; routing across two groups is covered by scripted histories, not by the graph search.",
         "3/C08"),
 "C14": ("E1 mdkx monitor", "model_checking",
         "monitor on every transition of the explored graphs: all tracing records, Err Display/Debug and result Debug scanned for every sensitive value in hex (both cases) and byte-list form",
         "Every log record and returned value produced on every explored transition is scanned; a hit is a violation.",
         "Encodings other than hex / byte list (e.g. base64) are not judged; Debug of types outside the statement's observation points is not judged.",
         "3/C14"),
 "C20": ("E1 mdkx", "model_checking",
         "state invariant on every state of the explored graphs for retention values 0..6 (stored snapshots <= retention, queue == stored, superseded snapshots gone) plus TTL boundary histories",
         "Every reachable state is checked; TTL boundaries are enumerated at ttl-1, ttl, ttl+1.",
         "Scenario bounds as C01.",
         "3/C20"),
 "C03": ("E1 mdkx", "model_checking",
         "explicit-state BFS: every observer (never-member, ex-member, joiner, leaver, second device) gets its own complete graph in the unrestricted regime over every wrapper and every welcome rumor ever published, with process/accept/decline transitions",
         "Every replay order of everything ever published is explored for each observer on the real client; stored and returned plaintext is compared with the membership the scenario text defines for the sending epoch.",
         "Membership per epoch is computed from the scenario description, never from the implementation; cryptographic strength of MLS/NIP-44 is assumed.",
         "3/C03"),
 "C11": ("E1 mdkx on SQLite", "model_checking",
         "lock-step product search over pairs (never-restarted replica, shadow replica) of one member; restart of the shadow is enabled in every pair state, so every subset of restart positions of every explored history is covered; oracle = the never-restarted replica",
         "Results, observable fingerprints and database dumps of the two replicas are compared on every edge and pair state.",
         "The never-restarted replica is forked by creating a fresh database in-process and copying rows (connection state of a never-reopened database); call-level side effects on the connection are not carried across forks.",
         "3/C11"),
 "C12": ("E4 crashx", "fault_enumeration",
         "exhaustive crash-point enumeration on the real SQLite write path: for every API call of five scripted histories (member: application / proposal / commit / losing commit / Add commit / own message / self_update / merge_pending_commit; rollback: losing commit then MIP-03 winner with snapshot + restore; two admins merging their own Add / rename commits; joiner: process + accept welcome) and every storage tick k of that call (every with_connection entry and every statement inside the snapshot / restore / relay-replacement transactions), a child process replays the earlier calls, runs the call and dies by abort() at tick k; the parent reopens the file. Thorough: additionally every second crash point k2 while the interrupted call is offered again (all pairs (k, k2)).",
         "Oracles per crash point: the file opens; every group loads; the relay set is the old or the new one; all crash points inside one storage transaction leave identical table dumps; offering the interrupted call again followed by all later calls ends in the normalised state of the uninterrupted in-process run. A difference that equals the one a clean restart at the call boundary produces is reported under its own class.",
         "Process death is abort() in the process that owns the connection (no power-loss / torn-page model: SQLite's journal is trusted); ticks are at statement granularity of MDK's storage layer, OpenMLS provider writes are reached through with_connection. Histories are scripted, not searched; create_group is not among the interrupted calls.",
         "3/C12"),
 "C13": ("E4 crashx + E3 sched + constructor matrix", "model_checking",
         "three exhaustive enumerations on the real SQLite/SQLCipher backend: (A) every sequence of constructor calls (5 constructors x 2 paths; depth 2 quick, 3 thorough) from each of 6 initial file states (missing, empty, plain, encrypted by caller key, encrypted by keyring key, garbage), judged after every call by a reference model of the documented rules (who may open what; data visible after reopen; keyring entry created once and never replaced; refused open leaves the file byte-identical; no canary / plain header in an encrypted database directory; modes 0600 / 0700); (B) a scripted history with planted canaries on an encrypted database, every file of the database and temp directories byte-scanned for every needle after every API call, at every storage tick inside every call (observer hook) and after a process death at every storage tick (E4 crash enumeration); (C) 2..3 threads calling constructors on one path under the controlled scheduler: depth-first over every schedule up to a preemption bound (2; 3 thorough for new||new), schedule points = yield points in the constructors + the key-generation and connection mutexes",
         "A: all sequences up to the depth agree with the model. B: no needle in any file at any scan point; wrong key / no key / unencrypted constructor refused, right key shows the same data. C: data written through every successful open is there on reopen (one key, reused), owner-only modes, no plaintext header, no deadlock or panic, for every explored schedule.",
         "Needles are the planted strings, group ids, the client's public key and every exporter secret of the scanned client (raw and hex); what SQLCipher writes is trusted to be ciphertext (not analysed). SQLITE_TEMP_STORE=2 is compiled into the bundled SQLCipher as an overridable default: no statement of the histories spills to a temporary file, the check asserts PRAGMA temp_store = 2 on the encrypted connection instead. Concurrent opens are interleaved at the listed points only (not inside SQLite); bound 2 preemptions. The mock keyring of keyring-core stands in for the platform keyring.",
         "3/C13"),
 "C19": ("E3 sched", "model_checking",
         "stateless depth-first exploration of every schedule of real threads under a controlled scheduler (schedule points = every lock acquisition of the backend: memory RwLocks, SQLite connection mutex; a thread is enabled when its lock is free), one real execution per schedule, for every program set over three colliding operation alphabets (groups/relays/secrets, snapshots/MLS state, messages/dedup): shapes 1+1, 2+1, 1+1+1 (quick) plus 2+2, 2+1+1, 3+1 (thorough) on both backends; plus concurrent first opens of one database path (yield points in the SQLite constructors, preemption bound 2-3)",
         "Oracle per schedule: the call results, the full read surface afterwards, and the read surface after rolling back to the snapshot the threads may have taken, equal those of some sequential order of the calls that respects program order and real-time order (computed by running every order on the same backend); when one thread works on group 1 only, the other threads' results and group 0's readable state must equal what those threads alone produce in some order (non-interference, judged against runs without the bystander); a memory instance with per-group message capacity 2 is one of the backends; deadlock (no enabled thread) and panics are findings.",
         "Interleavings inside a lock section and inside SQLite are not explored (the backends hold one lock per section; unsynchronised access is excluded by safe Rust). Schedules are complete for the stated program shapes, not for longer programs; concurrent opens use a preemption bound.",
         "3/C19"),
 "C04": ("E1 lab + adversary toolkit", "model_checking",
         "exhaustive product enumeration on real clients: forged rumor fields x sender role x receiver base state, plus every captured ciphertext re-wrapped (same / foreign h tag, both orders); each case is one delivery to a forked receiver state, judged by a before/after comparison of every stored message",
         "The complete finite product of the stated field domains is delivered to every base state; every stored message is re-hashed and compared with the authenticated sender.",
         "Field domains are small representative sets (3 pubkeys, 6 id modes, 4 kinds, 2 tag sets, 3 timestamps); base states are scripted, not searched.",
         "3/C04"),
 "C05": ("E1 lab + adversary toolkit", "model_checking",
         "exhaustive product enumeration on real clients: sender role x commit content built directly with the OpenMLS commit builder x queued foreign proposal x receiver role x base state; every stand-alone proposal kind; every foreign proposal kind queued at an honest admin x every admin operation; an admin's commits with raw group-data bytes (hostile encodings x receiver x base state; the same fields under format versions 1/3/7 followed by an honest rename)",
         "Verdict (accept/refuse) and roster/data delta of every case are compared with what the scenario defines; refusals must leave the fingerprint unchanged.",
         "PSK commits are not buildable through the public API and are not covered; outsider commits are covered by C06 (garbage) only.",
         "3/C05"),
 "C16": ("E1 mdkx + adversary toolkit", "model_checking",
         "explicit-state BFS of the recipient's graph with process/accept/decline of every invitation (original, replayed under a new wrapper id, attacker-made group reusing the MLS group id, attacker group claiming the real Nostr group id) enabled in every state, for recipients that are not members, pending, active, evicted; plus enumerated joiner-goes-on histories (role x first own operation: the rotation obligation survives every other own commit, an invitation made by a joiner is usable and lands in the inviter's state)",
         "Idempotence, consent-gating, joiner == inviter state and non-interference with existing groups are checked on every edge; later events are compared differentially with and without the invitation.",
         "Quick tier offers accept/decline only while the stored welcome is pending and caps graphs at 3000 states; thorough lifts both.",
         "3/C16"),
 "C09": ("E2 storex", "model_checking",
         "bounded-exhaustive breadth-first search over every sequence of storage operations of the snapshot alphabet (2 groups, 2 snapshot names, writes inside and outside the snapshot scope incl. OpenMLS writes) from the empty store and from a populated store; memory, SQLite and a plain reference model compared on every return value and on the whole read surface",
         "Every operation sequence up to the tier's depth is executed on both real backends; the reference model copies the group-scoped state at create and restores it at rollback, so any read that differs inside or outside the scope is reported.",
         "Depth 3 (quick) / 5 (thorough); sequences reaching the same reference-model state are merged from depth 1 (quick) or 3 (thorough); snapshot operations on groups without a record are outside the contract and not run.",
         "3/C09"),
 "C10": ("E2 storex", "model_checking",
         "bounded-exhaustive breadth-first search over every sequence of storage operations of four colliding alphabets; memory == SQLite == reference model on every return value and every read method with every pagination triple",
         "All sequences up to the tier's depth over small key pools (forced overwrites, ties on both timestamps, id reuse across groups, missing groups) run on both real backends and a plain reference model.",
         "Inputs stay inside both backends' documented limits; answers the contract leaves open are compared as sets; depth 3 (quick) / 4 (thorough).",
         "3/C10"),
 "C18": ("E2 storex + E1 invariant", "model_checking",
         "bounded-exhaustive operation sequences over a message alphabet with ties on created_at and processed_at: both backends' listings, every (limit, offset, sort) and last_message against the documented total order; every store sequence through update_last_message_if_newer; pointer == head of valid messages as a state invariant on E1 graphs",
         "Every sequence up to the tier's depth; pages are compared for every limit/offset incl. 0, MAX and MAX+1.",
         "Pointer after invalidation is judged on mdk-core histories (E1), not on raw storage sequences.",
         "3/C18"),
 "C06": ("E5 shapes + adversary toolkit", "exploration",
         "exhaustive enumeration of mutation families (outer wrapper fields, every k-th truncation / byte change of the NIP-44 content and of the MLS payload re-encrypted under the right exporter secret, malformed application payloads, valid proposals of ignored kinds, welcome and key-package tag mutations, 40-string menu x every uniffi string argument) x receiver states; oracle: no panic, refusal leaves every group's fingerprint unchanged",
         "Every case of the enumerated families is delivered to every receiver state on the real client (k = 1, i.e. every byte position, in the thorough tier).",
         "Byte-change mutations use one replacement value per position; allocation-failure aborts are not isolated in a child process.",
         "3/C06"),
 "C15": ("E5 shapes", "exploration",
         "exhaustive enumeration of the extension value domain (~45 000 values) through the real codec, every prefix truncation / suffix / wrong fixed length of a valid encoding, every single-field mutation of key-package events, welcome rumors and imeta tags through the public parse functions",
         "The complete stated domain is enumerated; the harness's own raw TLS encoder is first checked byte-for-byte against the code's encoder.",
         "Name/description domain is 7 representative strings; relay and admin counts <= 3.",
         "3/C15"),
 "C17": ("E5 shapes + scripted histories", "exploration",
         "exhaustive single-bit tamper of ciphertext and nonce for every payload size <= 65 B, single-field changes of the media reference, pairwise key comparison over a product of (file, name, type, group), group-image v1/v2 with every bit of ciphertext / nonce / seed flipped, and decryption 0..k epochs later with the announcing message processed after every possible number of intervening commits",
         "Every tamper case must fail; every round-trip case must return the same bytes.",
         "Cryptographic strength of ChaCha20-Poly1305 / HKDF is assumed; large payloads are tampered at a few positions only.",
         "3/C17"),
}

PENDING_REASON = "check not built yet in this revision (see DESIGN.md section 7 build order); will be claimed when its engine lands"
ALL = ["C%02d" % i for i in range(1, 21)]

def main():
    hooks_commits = subprocess.run(["git", "-C", "/repo", "log", "--format=%H %s"], capture_output=True, text=True).stdout.splitlines()
    hook_shas = [l.split()[0] for l in hooks_commits if " verif-hooks:" in l]
    m = {
        "version": 1,
        "setup_cmd": "cd /verif && ./check --build",
        "hooks": {
            "guard": "cargo feature `verif-hooks` (mdk-core, mdk-memory-storage, mdk-sqlite-storage)",
            "enable": "the harness crate /verif/harness path-depends on /repo/crates/* with features = [\"verif-hooks\"] (plus debug-examples, mip04 of mdk-core); `./check` rebuilds it from /repo's working tree",
            "baseline_off_cmd": "cd /repo && cargo nextest run --workspace --no-fail-fast --offline || cargo test --workspace --no-fail-fast --offline",
            "source_commits": hook_shas,
            "add_only": True,
        },
        "engines": [
            {"name": "E1 mdkx", "path": "harness/src/{lab,scenario,explore,props_e1,e1}.rs", "serves_properties": ["C01","C02","C03","C04","C05","C07","C08","C11","C14","C16","C20"], "kind_free_text": "explicit-state model checking of the real client: BFS over per-member delivery graphs with state forking"},
            {"name": "E2 storex", "path": "harness/src/storex.rs", "serves_properties": ["C09","C10","C18"], "kind_free_text": "bounded-exhaustive operation sequences on both storage backends against a reference model"},
            {"name": "E3 sched", "path": "harness/src/sched.rs", "serves_properties": ["C19","C13"], "kind_free_text": "controlled scheduler over lock and yield hooks, stateless DFS over schedules, optional preemption bound"},
            {"name": "E4 crashx", "path": "harness/src/crashx.rs", "serves_properties": ["C12","C13"], "kind_free_text": "child-process crash-point enumeration at every storage statement"},
            {"name": "E5 shapes", "path": "harness/src/shapes.rs", "serves_properties": ["C06","C15","C17"], "kind_free_text": "exhaustive enumeration of bounded input families"},
        ],
        "checks": [],
        "not_applicable": [],
        "notes": "exit 0 = held (KNOWN-FINDING lines for defects listed in known_findings.jsonl), 1 = VIOLATION, 2 = machinery failure. VERIF_THREADS / VERIF_WALL_CAP_S are honoured.",
    }
    for pid in ALL:
        if pid in CHECKS:
            eng, cat, tech, text, note, ref = CHECKS[pid]
            m["checks"].append({
                "property_id": pid,
                "quick_cmd": f"./check {pid} quick",
                "thorough_cmd": f"./check {pid} thorough",
                "evidence_file": f"/verif/evidence/{pid}.json",
                "replay_cmd_template": f"./check {pid} --replay {{path}}",
                "engine": eng,
                "level_claimed": {"category": cat, "text": text, "design_ref": f"DESIGN.md section {ref}"},
                "level_note": note,
                "technique": tech,
            })
        else:
            m["not_applicable"].append({"property_id": pid, "reason": PENDING_REASON})
    json.dump(m, open(os.path.join(HERE, "MANIFEST.json"), "w"), indent=1)
    print("wrote MANIFEST.json with", len(m["checks"]), "checks")

if __name__ == "__main__":
    main()
