#!/usr/bin/env python3
"""Maintainer tool (never run by a check): list signatures of the last run of a property that are
not in known_findings.jsonl, with a root-cause label proposed by the rules below. With --write the
labelled ones are appended as status=known. Unlabelled signatures are printed and never written."""
import json, sys, re
prop = sys.argv[1]
write = '--write' in sys.argv
ev = json.load(open(f'/verif/evidence/{prop}.json'))
sigs = ev['coverage'].get('finding_signatures', [])
known = set()
for l in open('/verif/known_findings.jsonl'):
    l = l.strip()
    if l and not l.startswith('#'):
        v = json.loads(l)
        if v.get('status') == 'known':
            known.add(v['signature'])

D = {
 'D1': "D1: a committer that applied its own commit locally (merge_pending_commit takes no rollback snapshot) cannot roll back when the better competing commit arrives; it stays on the losing branch",
 'D2': "D2: an event refused once is blocked for ever by its Failed/EpochInvalidated dedup record (commit ahead of its predecessor, commit ahead of the proposal it references, proposal that arrived after the member moved on), so the member never advances",
 'D10': "D10: a member removed by a losing commit that processed its removal cannot follow the winning commit (use after eviction); its group stays Inactive although it is still a member",
 'D5': "D5: every admin operation (add_members, remove_members, update_group_data, self_update) is built with OpenMLS helpers that consume the whole pending-proposal store, so a roster change merely proposed by somebody else (Add or Remove(other) from a non-admin or another admin) is carried out by an unrelated admin operation",
 'D6': "D6: process_welcome writes the group row (state Pending, epoch, name, ids, relays from the invitation) before any consent; an invitation for an MLS group id the user already holds (an attacker-made group reusing the id, or another invitation to the same group) overwrites the record of an Active group, and a later accept leaves a record that does not describe the MLS state",
 'D16': "D16: accept_welcome / decline_welcome do not look at the welcome's or the group's state: accepting an invitation again rebuilds the MLS group from the Welcome (replace_old_group) and throws the current epoch away; declining sets an Active group Inactive",
 'D18': "D18: the MIP-03 rollback is carried out before the competing candidate is validated: any wrapper that parses as a commit for an already passed epoch and sorts before the applied commit (a captured commit re-wrapped with an older created_at, or a corrupted copy under a smaller id) makes the client roll back; when the candidate then fails the client stays on the earlier epoch with the real commit marked EpochInvalidated",
 'D8': "D8: after a restart the snapshot queue rebuilt from storage has lost the applied commits' timestamps (applied_commit_ts = 0), is_better_candidate answers false, and a commit race can no longer be resolved by rollback: the restarted client refuses the better commit that the never-restarted one applies",
 'D11': "D11: an invitation that was already accepted (or one of its sibling rumors carrying the same MLS Welcome) is processed again when it arrives under another wrapper id: process_welcome upserts the group row, so an Active or evicted (Inactive) group is reset to Pending and can be re-activated at its join epoch by accept_welcome",
 'D9': "D9: an API call on SQLite is a sequence of separately committed statements (only snapshot, restore and relay replacement are transactions), and OpenMLS persists the advanced decryption ratchet / deletes the consumed key package before MDK has recorded any effect; a process death in between leaves the event consumed but not applied (offering it again is refused, the message is lost or the member is stuck behind the commit / the invitation can never be accepted) or leaves the MLS state ahead of the group record",
 'D8c': "D8 reached through a crash: the process dies inside the echo of the member's own commit after the rollback snapshot of that epoch was written; the restarted process hydrates that snapshot without the applied commit's timestamp, offering the echo again applies the commit, but the better competing commit that arrives afterwards is no longer recognised as better and is refused (no rollback)",
 'D23': "D23: a commit that sets a group's Nostr group id to a value another group of the same client still holds (the other group has given the id up, but this client has not processed that rotation yet) is merged at the MLS level, then the record update is refused by the uniqueness rule on the id: the call reports Unprocessable, the group's MLS state is one epoch ahead of its record for good, and its later events (tagged with the new id) are refused as GroupNotFound",
 'D21': "D21: new() racing with new_unencrypted() or new_with_key() on the same missing path: new() pre-creates the file and stores a fresh keyring key, the other constructor (no key-generation lock, ignores AlreadyExisted) initialises the empty file its own way, new() then fails with WrongEncryptionKey; the keyring keeps the key new() generated, which no sequential order of the two calls leaves behind",
 'D14': "D14: events are routed by the Nostr group id in the stored record only: after an id rotation (applied, or applied on a losing branch and rolled back) an event tagged with the id that was in force when it was created is unroutable (GroupNotFound, recorded Failed): the winning commit of a race is refused and the member stays on the losing branch (C01); an application message of the previous epoch that arrives after the rotation commit is lost, an own message is never confirmed (C02)",
}
def label(s):
    if s.startswith('C01|'):
        if 'at-unknown-node' in s and 'inactive-but-member' in s: return 'D10'
        if 'redelivery=PreviouslyFailed' in s: return 'D14'
        if 'proposal-dedup=failed' in s or 'proposal-dedup=epoch_invalidated' in s: return 'D2'
        if 'snapshot-at-fork=no,on-branch-of=own-commit' in s and (s.endswith(',own-commit-applied-by=merge') or s.endswith(',own-commit-applied-by=start-state')): return 'D1'
        if 'quiescent-behind' in s and 'off-spine-depth=0,needs=commit.other:dedup=failed:redelivery=Unprocessable' in s: return 'D2'
    if s.startswith('C02|') and ':h-tag=id-rotated-since|' in s and ('|lost|' in s or '|ends-created|' in s): return 'D14'
    if s.startswith('C02|lost|') and ':redelivery=disabled:' in s and s.endswith('|deliver(commit.other.winner@cur)->Unprocessable'): return 'D2'
    if s.startswith('C03|removed-user-still-in-roster-after-settling|') and 'snapshot-at-fork=no,on-branch-of=own-commit' in s and (s.endswith(',own-commit-applied-by=merge') or s.endswith(',own-commit-applied-by=start-state')): return 'D1'
    if s.startswith('C03|removed-user-still-in-roster-after-settling|') and 'snapshot-at-fork=yes,' in s and 'branch-is-better=false' in s and ('on-branch-of=other-commit' in s or 'own-commit-applied-by=echo' in s) and s.endswith(',first-offered=loser,restart-after-it=true'): return 'D8'
    if s.startswith('C03|reactivated-after-eviction:pending|via=process_welcome(foreign-invitation)->Welcome'): return 'D11'
    if s.startswith('C03|reactivated-after-eviction:active|via=accept_welcome(own-invitation)->Ok'): return 'D16'
    if s.startswith('C04|message-of-another-author-altered|replay=commit|same-h,smaller-id|'): return 'D18'
    if s.startswith('C05|admin-operation-carried-out-foreign-proposal|'): return 'D5'
    if s.startswith('C16|active-group-disturbed-by-process|invitation=forged'): return 'D6'
    if s.startswith('C16|active-group-disturbed-by-process|'): return 'D11'
    if s.startswith('C16|active-group-disturbed-by-accept|') or s.startswith('C16|active-group-disturbed-by-decline|'): return 'D16'
    if s.startswith('C16|joiner-record-differs-from-mls-state|') or s.startswith('C16|joiner-state-differs-from-inviter|') or s.startswith('C16|no-pending-key-rotation-after-join|'):
        # only outside clean joins: another invitation (forged, replayed, older) clobbered the record first, or an already handled invitation was accepted again
        return 'D6' if 'recipient=pending' in s else 'D16'
    if s.startswith('C16|later-events-processed-differently-after-invitation|'): return 'D6'
    if s.startswith('C06|refused-event-changed-state|') and ('|next-epoch|' in s or '|message-stored-next-epoch|' in s) and s.endswith('|mls+record') and ('|commit|' in s or '|proposal|' in s): return 'D18'
    if s.startswith('C06|event-that-is-not-a-commit-changed-the-epoch|proposal|mls-') and ('|next-epoch|' in s or '|message-stored-next-epoch|' in s) and s.endswith('|Unprocessable'): return 'D18'
    if s.startswith('C08|two-groups|record-vs-mls:epoch+nostr_group_id|after=g2:takes-the-old-id-commit->Unprocessable|'): return 'D23'
    if s.startswith('C08|two-groups|messages-not-routed-to-their-group|g2:g2-under-the-reused-id|'): return 'D23'
    if s.startswith('C08|record-vs-mls:') and 'process_welcome(foreign-invitation)->Welcome' in s and 'accept_welcome(own-invitation)->Ok' in s: return 'D11'
    if s.startswith('C12|creator|create_group@') and '|after-reopen:record-differs-from-mls:relays|again:Ok,Ok,Ok' in s: return 'D9'
    if s.startswith('C12|recovery-differs|own-commit-echo|process_message[own-commit-echo]@') and '|again:same-result|' in s: return 'D8c'
    if s.startswith('C12|recovery-differs|sole-own-commit-echo|process_message[sole-own-commit-echo]@with_connection|reopened:between(before:') and 'pending_commit;after:' in s and '|again:same-result|' in s: return 'D9'
    if s.startswith('C12|recovery-differs|'):
        if re.search(r'\|again:(Unprocessable|Err\(\w+\))-instead-of-(ApplicationMessage|Commit|Proposal|PendingProposal|Ok)\|', s): return 'D9'
        if re.search(r'\|merge_pending_commit\[own[^\]]*\]@', s) and '|reopened:between(' in s and '|again:same-result|' in s: return 'D9'
    if s in ('C19|concurrent-open|not-sequential|new||unencrypted missing|keyring-entries=[true, false]-sequentially-[false, false]', 'C19|concurrent-open|not-sequential|new||with_key missing|keyring-entries=[true, false]-sequentially-[false, false]'): return 'D21'
    if s.startswith('C11|'):
        if 'never-restarted=Commit|restarted=Unprocessable|restart-after-competitor-applied' in s: return 'D8'
        if s.startswith('C11|obs-differs|deliver(commit.') and s.endswith('|restart-after-competitor-applied'): return 'D8'
    return None
new = [s for s in sigs if s not in known]
out = []
for s in new:
    l = label(s)
    print(('%-4s' % (l or '??')), s)
    if l: out.append({"property": prop, "status": "known", "signature": s, "what": D[l]})
if write and out:
    with open('/verif/known_findings.jsonl', 'a') as f:
        for o in out: f.write(json.dumps(o) + "\n")
    print("appended", len(out))
