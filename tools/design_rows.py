#!/usr/bin/env python3
# maintainer tool: (re)insert the detection-table rows of DESIGN.md §5 for seeded changes of a round
# usage: tools/design_rows.py 7 8     (suffixes); rows are placed after the row of the previous suffix of the same property
import json, re, sys, os
sfx = sys.argv[1:]
d = open('/verif/DESIGN.md').read().split('\n')
def title(s):
    for l in open(f'/verif/seeded/{s}/notes.md'):
        if l.startswith('#'):
            t = l.lstrip('#').strip()
            t = re.sub(r'^C\d\d-\d+\s*[—:\-–]+\s*', '', t)
            return t.replace('|', '/')
    return s
for p in [f'C{i:02d}' for i in range(1, 21)]:
    for k in sfx:
        s = f'{p}-{k}'
        if not os.path.exists(f'/verif/seeded/{s}/meta.json'): continue
        m = json.load(open(f'/verif/seeded/{s}/meta.json'))
        by = '; '.join(m['caught_by']).replace('|', '/')
        if m.get('note'): by += ' — ' + m['note'].replace('|', '/')
        row = f'| {s} | {title(s)} | {by} |'
        d = [l for l in d if not l.startswith(f'| {s} |')]
        prev = max(i for i, l in enumerate(d) if re.match(rf'\| {p}-\d+ \|', l))
        d.insert(prev + 1, row)
open('/verif/DESIGN.md', 'w').write('\n'.join(d))
