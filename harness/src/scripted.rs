//! Scripted (sequential) histories on real clients for the parts of properties that are about
//! wall-clock values or several groups, where the graph search does not apply directly.

use mdk_core::prelude::*;
use serde_json::{Value, json};

use crate::explore::{Action, step};
use crate::families::*;
use crate::lab::*;
use crate::report::Report;
use crate::scenario::*;
use crate::with_mdk;

fn list_snaps(c: &Client, gid: &GroupId) -> Vec<(String, u64)> {
    with_mdk!(c, m => { use openmls::prelude::OpenMlsProvider; m.provider.storage().list_group_snapshots(gid) }).unwrap_or_default()
}

fn set_created_at(c: &Client, gid: &GroupId, name: &str, ts: u64) -> bool {
    match &c.mdk {
        Mdk::Mem(m) => {
            use openmls::prelude::OpenMlsProvider;
            m.provider.storage().verif_set_snapshot_created_at(gid, name, ts)
        }
        Mdk::Sql(m, _) => {
            use openmls::prelude::OpenMlsProvider;
            m.provider.storage().verif_with_connection(|conn| conn.execute("UPDATE group_state_snapshots SET created_at = ?1 WHERE snapshot_name = ?2", rusqlite::params![ts as i64, name]).map(|n| n > 0).unwrap_or(false))
        }
    }
}

/// C20 (time-to-live): snapshots keep their age across a rollback; on start-up exactly the expired ones go.
pub fn c20_ttl(rep: &mut Report, backend: Bk, ttl_seconds: Option<u64>) {
    let m = ["A", "B", "Z"];
    let ad = ["A", "B"];
    // root -> b1 -> { b2 -> b3 , a2 (better than b2) }: a rollback to the middle of the queue
    let sc = base(
        "ttl-mid-rollback",
        &m,
        &ad,
        &[],
        vec![act("B", ActKind::Rename("b1".into()), 10).then(vec![act("B", ActKind::Rename("b2".into()), 30).then(vec![act("B", ActKind::Rename("b3".into()), 50)]), act("A", ActKind::Rename("a2".into()), 20)])],
    );
    let mut sc = sc;
    if let Some(t) = ttl_seconds {
        // a configured time-to-live other than the default week
        sc.cfg.snapshot_ttl_seconds = t;
    }
    // a time-to-live of a few seconds would expire the snapshots while the history is still being built (every fork of a
    // SQLite client runs the start-up pruning): such values are only in force for the restart that is judged
    let ttl = sc.cfg.snapshot_ttl_seconds;
    let small_ttl = ttl < 60;
    let cfg_judged = sc.cfg.clone();
    let mut sc_build = sc.clone();
    if small_ttl {
        sc_build.cfg.snapshot_ttl_seconds = Cfg::default().snapshot_ttl_seconds;
    }
    let w = match build_world(&sc_build, backend) {
        Ok(w) => w,
        Err(e) => {
            rep.machinery_errors.push(format!("c20_ttl world: {}", e.0));
            return;
        }
    };
    let idx = |suffix: &str| w.pool.iter().position(|p| p.label.ends_with(suffix)).unwrap();
    let (b1, b2, b3, a2) = (idx("B.rename0"), w.pool.iter().position(|p| p.label.starts_with("n0.B")).unwrap(), w.pool.iter().position(|p| p.label.starts_with("n0_0.B")).unwrap(), w.pool.iter().position(|p| p.label.starts_with("n0.A")).unwrap());
    // ages: every subset of {e1,e2,e3} expired x margin
    for pattern in 0..8u32 {
        for margin in [5u64, 3600] {
            // two identical clients: one is rolled back, the other restarted as it is
            let mk = || {
                let mut c = w.initial["Z"].fork();
                for i in [b1, b2, b3] {
                    c = step(&w, &c, Action::Deliver(i)).client;
                }
                c
            };
            let c = mk();
            let c2 = mk();
            let mut snaps = list_snaps(&c, &w.gid);
            snaps.sort();
            rep.case(&format!("ttl|{backend:?}|{pattern}|{margin}|{}", snaps.len()));
            if snaps.len() != 3 {
                rep.machinery_errors.push(format!("c20_ttl: expected 3 snapshots, got {}", snaps.len()));
                return;
            }
            let t0 = now();
            let mut want_age: Vec<(String, u64, bool)> = Vec::new();
            for (k, (name, _)) in snaps.iter().enumerate() {
                let expired = pattern & (1 << k) != 0;
                let ts = if expired { t0 - ttl - margin } else { t0 - ttl + margin.max(60) };
                if !set_created_at(&c, &w.gid, name, ts) || !set_created_at(&c2, &w.gid, name, ts) {
                    rep.machinery_errors.push("c20_ttl: cannot set created_at".into());
                    return;
                }
                want_age.push((name.clone(), ts, expired));
            }
            // (a) a rollback to the middle keeps the age of the surviving snapshot
            let out = crate::explore::step_on(&w, c, Action::Deliver(a2));
            let c = c2;
            let after = list_snaps(&out.client, &w.gid);
            rep.outcome(&format!("rollback-result:{backend:?}:{}", out.result));
            if out.result != "Commit" {
                rep.machinery_errors.push(format!("c20_ttl: the scripted rollback did not happen ({})", out.result));
            }
            for (name, ts, _) in &want_age {
                if let Some((_, got)) = after.iter().find(|(n, _)| n == name) {
                    if got != ts {
                        rep.finding(
                            format!("C20|ttl|{backend:?}|snapshot-age-changed-by-rollback"),
                            format!("a rollback rewrote created_at of a surviving snapshot ({ts} -> {got}); it now outlives its time-to-live"),
                            json!({"scenario": sc, "backend": format!("{backend:?}"), "pattern": pattern, "margin": margin, "before": want_age, "after": after}),
                        );
                    }
                }
            }
            // (b) restart: exactly the expired snapshots are removed (persistent backend only)
            if backend == Bk::Sqlite {
                for (label, cl) in [("before-rollback", &c), ("after-rollback", &out.client)] {
                    let before = list_snaps(cl, &w.gid);
                    let r = if small_ttl { cl.restart_with(&cfg_judged) } else { cl.restart() };
                    let got: Vec<String> = list_snaps(&r, &w.gid).into_iter().map(|x| x.0).collect();
                    let t1 = now();
                    let mut want: Vec<String> = Vec::new();
                    let mut unsure = false;
                    for (n, ts) in &before {
                        // decided with a margin around the wall clock; a snapshot whose age is within 2 s of the ttl is not judged
                        if ts + ttl > t1 + 2 {
                            want.push(n.clone());
                        } else if ts + ttl + 2 < t0 {
                        } else {
                            unsure = true;
                        }
                    }
                    rep.case(&format!("ttl-restart|{label}|{pattern}|{margin}|{}", got.len()));
                    if !unsure && got != want {
                        rep.finding(
                            format!("C20|ttl|{backend:?}|startup-prune-wrong|{label}|{}", if ttl_seconds.is_some() { "configured-ttl" } else { "default-ttl" }),
                            format!("after start-up the stored snapshots are {got:?}, expected exactly the unexpired ones {want:?}"),
                            json!({"scenario": sc, "backend": format!("{backend:?}"), "pattern": pattern, "margin": margin, "stored_before": before, "stored_after": got, "ttl": ttl}),
                        );
                    }
                }
            }
        }
    }
}

/// C20 (retention across a restart): a client that stored snapshots under retention r1 is restarted with
/// retention r2, for every pair (r1, r2) in 0..=6 and every restart position in a straight run of 6
/// commits; after the next commit the store holds at most r2 snapshots, and they are the most recent ones.
pub fn c20_retention_change(rep: &mut Report) {
    let m = ["A", "B", "Z"];
    let ad = ["A", "B"];
    let mut node = act("A", ActKind::Rename("r6".into()), 60);
    for k in (1..6).rev() {
        node = act("A", ActKind::Rename(format!("r{k}")), 10 * k as u64).then(vec![node]);
    }
    let sc = base("retention-change", &m, &ad, &[], vec![node]);
    let w = match build_world(&sc, Bk::Sqlite) {
        Ok(w) => w,
        Err(e) => {
            rep.machinery_errors.push(format!("c20_retention_change world: {}", e.0));
            return;
        }
    };
    let commits: Vec<usize> = w.spine.iter().skip(1).filter_map(|p| w.pool.iter().position(|e| e.kind == EvKind::Commit && e.child.as_ref() == Some(p))).collect();
    if commits.len() != 6 {
        rep.machinery_errors.push(format!("c20_retention_change: expected 6 spine commits, got {}", commits.len()));
        return;
    }
    for r1 in 0..=6usize {
        for r2 in 0..=6usize {
            for pos in 1..6usize {
                let cfg1 = Cfg { epoch_snapshot_retention: r1, ..sc.cfg.clone() };
                let cfg2 = Cfg { epoch_snapshot_retention: r2, ..sc.cfg.clone() };
                let mut c = w.initial["Z"].restart_with(&cfg1);
                for i in &commits[..pos] {
                    c = crate::explore::step_on(&w, c, Action::Deliver(*i)).client;
                }
                let before = list_snaps(&c, &w.gid).len();
                let mut c = c.restart_with(&cfg2);
                c = crate::explore::step_on(&w, c, Action::Deliver(commits[pos])).client;
                let mut after: Vec<String> = list_snaps(&c, &w.gid).into_iter().map(|x| x.0).collect();
                after.sort();
                rep.case(&format!("retention-change|{r1}|{r2}|{pos}|{before}|{}", after.len()));
                rep.evaluations += 1;
                // the snapshot names carry the epoch they were taken at
                let epochs: Vec<u64> = after.iter().filter_map(|n| n.rsplit('_').nth(1).and_then(|e| e.parse().ok()).or_else(|| n.split("_epoch_").nth(1).and_then(|x| x.split('_').next()).and_then(|e| e.parse().ok()))).collect();
                if after.len() > r2 {
                    rep.finding(
                        format!("C20|retention-after-restart|stored>{}", if r2 < r1 { "lowered-retention" } else { "retention" }),
                        format!("stored under retention {r1} ({before} snapshots), restarted with retention {r2}, one more commit: the store holds {} snapshots {after:?}", after.len()),
                        json!({"r1": r1, "r2": r2, "restart_after_commits": pos, "stored": after, "epochs": epochs}),
                    );
                }
            }
        }
    }
    rep.states += 1;
}

/// C20 (which snapshots survive a restart): a straight run long enough for the epoch numbers to gain a digit,
/// every stored snapshot stamped with the same second (they are usually taken within one), a restart at every
/// position, then one more commit: the store holds exactly the `retention` most recent snapshots.
pub fn c20_most_recent_after_restart(rep: &mut Report) {
    let m = ["A", "B", "Z"];
    let ad = ["A", "B"];
    let n = 11usize;
    let mut node = act("A", ActKind::Rename(format!("r{n}")), 10 * n as u64);
    for k in (1..n).rev() {
        node = act("A", ActKind::Rename(format!("r{k}")), 10 * k as u64).then(vec![node]);
    }
    for retention in [2usize, 3] {
        let mut sc = base("long-chain-restart", &m, &ad, &[], vec![node.clone()]);
        sc.cfg.epoch_snapshot_retention = retention;
        let w = match build_world(&sc, Bk::Sqlite) {
            Ok(w) => w,
            Err(e) => {
                rep.machinery_errors.push(format!("c20 long chain world: {}", e.0));
                return;
            }
        };
        let commits: Vec<usize> = w.spine.iter().skip(1).filter_map(|p| w.pool.iter().position(|e| e.kind == EvKind::Commit && e.child.as_ref() == Some(p))).collect();
        if commits.len() != n {
            rep.machinery_errors.push(format!("c20 long chain: expected {n} spine commits, got {}", commits.len()));
            return;
        }
        let root_epoch = w.nodes[&vec![]].core.epoch;
        let epoch_of = |name: &str| -> Option<u64> { name.split('_').rev().nth(1).and_then(|e| e.parse().ok()) };
        for pos in retention..n {
            let mut c = w.initial["Z"].restart_with(&sc.cfg);
            for i in &commits[..pos] {
                c = crate::explore::step_on(&w, c, Action::Deliver(*i)).client;
            }
            let stamp = now() - 30;
            for (name, _) in list_snaps(&c, &w.gid) {
                let _ = set_created_at(&c, &w.gid, &name, stamp);
            }
            let mut c = c.restart_with(&sc.cfg);
            c = crate::explore::step_on(&w, c, Action::Deliver(commits[pos])).client;
            let mut got: Vec<u64> = list_snaps(&c, &w.gid).iter().filter_map(|x| epoch_of(&x.0)).collect();
            got.sort();
            // snapshots are taken at the epochs root .. root+pos (one before every applied commit)
            let newest = root_epoch + pos as u64;
            let want: Vec<u64> = ((newest + 1 - retention as u64)..=newest).collect();
            rep.case(&format!("most-recent|{retention}|{pos}|{got:?}"));
            rep.evaluations += 1;
            if got != want {
                rep.finding(
                    format!("C20|kept-snapshots-are-not-the-most-recent|after-restart|{}", if got.len() > retention { "too-many" } else { "wrong-ones" }),
                    format!("retention {retention}, {pos} commits applied, all stored snapshots taken in one second, restart, one more commit: the store holds the snapshots of epochs {got:?}, the most recent are {want:?}"),
                    json!({"retention": retention, "commits_before_restart": pos, "stored_epochs": got, "expected_epochs": want}),
                );
            }
        }
    }
    rep.states += 1;
}

/// C18 (pointer on the sender's side): a member stores a peer's message whose created_at lies ahead of its own clock
/// and then writes messages of its own with older, equal and newer created_at; after every step the last-message
/// pointer names the head of the default order.
pub fn c18_own_messages_pointer(rep: &mut Report, backend: Bk) {
    let sc = base("own-message-pointer", &["A", "B", "Z"], &["A"], &[], vec![act("B", ActKind::Msg("from-a-clock-ahead".into()), 5)]);
    let w = match build_world(&sc, backend) {
        Ok(w) => w,
        Err(e) => {
            rep.machinery_errors.push(format!("c18 own-message world: {}", e.0));
            return;
        }
    };
    let peer = w.pool.iter().position(|p| p.kind == EvKind::Msg).unwrap();
    let peer_ts = w.pool[peer].rumor.as_ref().map(|r| r.created_at.as_secs()).unwrap_or(0);
    // own messages relative to the peer's: older, the same second, newer; before and after the peer's arrives
    for own_first in [false, true] {
        for (label, ts) in [("older", peer_ts - 50), ("same-second", peer_ts), ("newer", peer_ts + 50)] {
            let z = w.initial["Z"].fork();
            let mut steps: Vec<String> = Vec::new();
            let mut check = |z: &Client, steps: &Vec<String>, rep: &mut Report| {
                if let Some(go) = z.group_obs(&w.gid) {
                    rep.evaluations += 1;
                    // the head of the library's own default listing (its order is judged against the model in the E2 part;
                    // the processing time takes part in it and is wall-clock, so it is not recomputed here)
                    let listing = with_mdk!(z, m => m.get_messages(&w.gid, None)).unwrap_or_default();
                    let head = listing.iter().find(|m| m.state.as_str() != "epoch_invalidated").map(|m| m.id.to_hex());
                    let ptr = go.record["last_message_id"].as_str().map(|s| s.to_string());
                    let mm = if head != ptr { Some((ptr, head)) } else { None };
                    if let Some(mm) = mm {
                        rep.finding(
                            format!("C18|pointer-not-head-of-valid-messages|own-message-{label}-than-the-stored-head|{}|{backend:?}", if own_first { "own-first" } else { "peer-first" }),
                            format!("after [{}] the last-message pointer is not the head of the default order: {mm:?}", steps.join(" ; ")),
                            json!({"steps": steps, "backend": format!("{backend:?}"), "mismatch": format!("{mm:?}")}),
                        );
                    }
                }
            };
            if !own_first {
                let r = z.process(&w.pool[peer].event);
                steps.push(format!("process(peer message @{peer_ts}) -> {}", result_kind(&r)));
                check(&z, &steps, rep);
            }
            let own = with_mdk!(z, m => m.create_message(&w.gid, rumor(&z.keys, &format!("own-{label}"), ts)));
            steps.push(format!("create_message(own @{ts}) -> {}", if own.is_ok() { "Ok" } else { "Err" }));
            check(&z, &steps, rep);
            // the processing time is wall-clock: in the full-tie case the three steps are also spread over three seconds
            let spread = own_first && label == "same-second";
            if own_first {
                if spread {
                    std::thread::sleep(std::time::Duration::from_millis(1100));
                }
                let r = z.process(&w.pool[peer].event);
                steps.push(format!("process(peer message @{peer_ts}) -> {}", result_kind(&r)));
                check(&z, &steps, rep);
            }
            if let Ok(ev) = own {
                if spread {
                    std::thread::sleep(std::time::Duration::from_millis(1100));
                }
                let r = z.process(&ev);
                steps.push(format!("process(own echo) -> {}", result_kind(&r)));
                check(&z, &steps, rep);
            }
            rep.case(&format!("own-pointer|{backend:?}|{own_first}|{label}"));
        }
    }
    rep.states += 1;
}

/// C07, sender role: the echo of an own message confirms the stored copy (Created -> Processed) and changes nothing
/// else about it - every stored field including the processing time, which the graphs cannot observe because it is
/// wall-clock - and neither does any further echo. Enumerated: backend x rumor time {long ago, now, ahead} x a peer's
/// message stored before / after / never x 1..3 echoes.
pub fn c07_own_echo_fields(rep: &mut Report, backend: Bk) {
    use mdk_storage_traits::groups::GroupStorage;
    let sc = base("own-echo-fields", &["A", "B", "Z"], &["A"], &[], vec![act("B", ActKind::Msg("peer".into()), 5)]);
    let w = match build_world(&sc, backend) {
        Ok(w) => w,
        Err(e) => {
            rep.machinery_errors.push(format!("c07 own-echo world: {}", e.0));
            return;
        }
    };
    let peer = w.pool.iter().position(|p| p.kind == EvKind::Msg).unwrap();
    let now_ts = now();
    let fields = |z: &Client, id: &nostr::EventId| -> Option<(Value, String)> {
        let m = with_mdk!(z, m => m.get_message(&w.gid, id)).ok().flatten()?;
        let mut v = message_json(&m);
        v["processed_at"] = json!(m.processed_at.as_secs());
        let st = v["state"].as_str().unwrap_or("").to_string();
        v.as_object_mut().unwrap().remove("state");
        Some((v, st))
    };
    let group_fields = |z: &Client| -> Value {
        let g = with_mdk!(z, m => m.get_group(&w.gid)).ok().flatten();
        json!(g.map(|g| (g.last_message_id.map(|i| i.to_hex()), g.last_message_at.map(|t| t.as_secs()), g.last_message_processed_at.map(|t| t.as_secs()), g.epoch, g.name)))
    };
    for (tlabel, ts) in [("long-ago", now_ts - 5000), ("now", now_ts), ("ahead", now_ts + 5000)] {
        for peer_when in ["never", "before", "between"] {
            let z = w.initial["Z"].fork();
            if peer_when == "before" {
                let _ = z.process(&w.pool[peer].event);
            }
            let Ok(ev) = with_mdk!(z, m => m.create_message(&w.gid, rumor(&z.keys, &format!("own-{tlabel}"), ts))) else {
                rep.machinery_errors.push("c07 own-echo: create_message failed".into());
                continue;
            };
            let id = with_mdk!(z, m => m.get_messages(&w.gid, None)).ok().and_then(|v| v.into_iter().find(|m| m.wrapper_event_id == ev.id).map(|m| m.id));
            let Some(id) = id else {
                rep.machinery_errors.push("c07 own-echo: own message not stored".into());
                continue;
            };
            if peer_when == "between" {
                let _ = z.process(&w.pool[peer].event);
            }
            let Some((f0, s0)) = fields(&z, &id) else { continue };
            let g0 = group_fields(&z);
            let mut prev = (f0.clone(), g0.clone());
            for n in 1..=3 {
                let r = z.process(&ev);
                let Some((f, s)) = fields(&z, &id) else {
                    rep.finding(format!("C07|own-message-echo|stored-copy-gone|echo-{n}|{backend:?}"), format!("after echo {n} of an own message ({}) the stored copy is gone", result_kind(&r)), json!({"backend": format!("{backend:?}")}));
                    break;
                };
                let gf = group_fields(&z);
                rep.case(&format!("own-echo|{backend:?}|{tlabel}|{peer_when}|echo-{n}|{}|{s0}->{s}", result_kind(&r)));
                rep.evaluations += 1;
                if f != prev.0 || gf != prev.1 {
                    let changed: Vec<String> = f.as_object().map(|o| o.keys().filter(|k| f[k.as_str()] != prev.0[k.as_str()]).cloned().collect()).unwrap_or_default();
                    rep.finding(
                        format!("C07|own-message-echo|{}|changed={}{}|{backend:?}", if n == 1 { "first-echo-changed-more-than-the-state" } else { "repeated-echo-changed-the-stored-copy" }, changed.join("+"), if gf != prev.1 { "+group-last-message-fields" } else { "" }),
                        format!("own message (rumor time {tlabel}, peer message {peer_when}): echo {n} ({}) changed {changed:?} of the stored copy{}", result_kind(&r), if gf != prev.1 { " and the group's last-message fields" } else { "" }),
                        json!({"backend": format!("{backend:?}"), "before": prev.0, "after": f, "group_before": prev.1, "group_after": gf}),
                    );
                    break;
                }
                prev = (f, gf);
            }
        }
    }
    rep.states += 1;
}

/// C16, what a joiner does next: enumerated over backend x the joiner's role {admin, plain member} x its first own
/// operation after accepting {self_update, rename (admin), invite a third user (admin)} x whether it rotates before or
/// after that. Oracles: the obligation to rotate the key stays pending until a self-update of the joiner has been
/// merged (no other commit of its discharges it); a user invited *by the joiner* can process and accept that
/// invitation and lands in exactly the joiner's post-commit state.
pub fn c16_joiner_goes_on(rep: &mut Report, backend: Bk) {
    use mdk_storage_traits::groups::types::SelfUpdateState;
    let cfg = Cfg::default();
    let wid = |s: &str| nostr::EventId::from_slice(&sha2_32(s.as_bytes())).unwrap();
    for joiner_admin in [true, false] {
        for first_op in ["self_update", "rename", "invite"] {
            if !joiner_admin && first_op != "self_update" {
                continue;
            }
            let a = Client::new("A", Bk::Memory, &cfg);
            let b = Client::new("B", backend, &cfg);
            let c = Client::new("C", backend, &cfg);
            let admins = if joiner_admin { vec![a.pk(), b.pk()] } else { vec![a.pk()] };
            let cfgd = NostrGroupConfigData::new("chain".into(), "d".into(), Some([0x71; 32]), Some([0x72; 32]), Some([0x73; 12]), vec![relay("wss://c.example")], admins);
            let Ok(created) = with_mdk!(a, m => m.create_group(&a.pk(), vec![b.key_package_event()], cfgd)) else {
                rep.machinery_errors.push("c16 chain: create_group".into());
                continue;
            };
            let gid = created.group.mls_group_id.clone();
            let _ = with_mdk!(a, m => m.merge_pending_commit(&gid));
            // the stored invitation is the invitation: what process_welcome returns, what it returns when the same
            // invitation is processed again, and what get_welcome reads back agree field by field and with the group
            {
                let wj = |w: &mdk_storage_traits::welcomes::types::Welcome| -> Value {
                    json!({"id": w.id.to_hex(), "group": hx(w.mls_group_id.as_slice()), "nostr_group_id": hx(&w.nostr_group_id), "name": w.group_name, "description": w.group_description,
                        "image_hash": w.group_image_hash.map(|h| hx(&h)), "image_key": w.group_image_key.as_ref().map(|k| hx(k.as_ref())), "image_nonce": w.group_image_nonce.as_ref().map(|k| hx(k.as_ref())),
                        "admins": w.group_admin_pubkeys.iter().map(|p| p.to_hex()).collect::<Vec<_>>(), "relays": w.group_relays.iter().map(|r| r.to_string()).collect::<Vec<_>>(),
                        "welcomer": w.welcomer.to_hex(), "member_count": w.member_count, "state": w.state.as_str(), "wrapper": w.wrapper_event_id.to_hex()})
                };
                let first = with_mdk!(b, m => m.process_welcome(&wid("w-b"), &created.welcome_rumors[0])).ok().map(|w| wj(&w));
                let again = with_mdk!(b, m => m.process_welcome(&wid("w-b"), &created.welcome_rumors[0])).ok().map(|w| wj(&w));
                let read = created.welcome_rumors[0].id.and_then(|id| with_mdk!(b, m => m.get_welcome(&id)).ok().flatten()).map(|w| wj(&w));
                rep.case(&format!("stored-invitation|{backend:?}|{}|{}|{}", first.is_some(), again == first, read == first));
                rep.evaluations += 1;
                let want_img = json!([hx(&[0x71u8; 32]), hx(&[0x72u8; 32]), hx(&[0x73u8; 12])]);
                if let Some(f) = &first {
                    if json!([f["image_hash"], f["image_key"], f["image_nonce"]]) != want_img || f["name"] != "chain" {
                        rep.finding("C16|invitation-does-not-describe-the-group".into(), "process_welcome returns an invitation whose name / image fields are not the group's".into(), json!({"backend": format!("{backend:?}"), "welcome": f}));
                    }
                }
                if first.is_some() && (again != first || read != first) {
                    let diff = |x: &Option<Value>| -> Vec<String> { match (x, &first) { (Some(a), Some(f)) => f.as_object().map(|o| o.keys().filter(|k| a[k.as_str()] != f[k.as_str()]).cloned().collect()).unwrap_or_default(), _ => vec!["missing".into()] } };
                    rep.finding(format!("C16|same-invitation-again-returns-another-welcome|processed-again:{}|read-back:{}|{backend:?}", diff(&again).join("+"), diff(&read).join("+")), "processing the same invitation again / reading it back does not give the welcome the first call returned".into(), json!({"backend": format!("{backend:?}"), "first": first, "again": again, "read_back": read}));
                }
            }
            let joined = with_mdk!(b, m => m.process_welcome(&wid("w-b"), &created.welcome_rumors[0]).and_then(|w| m.accept_welcome(&w))).is_ok();
            if !joined {
                rep.machinery_errors.push("c16 chain: B cannot join".into());
                continue;
            }
            let obligation = |x: &Client| -> (bool, bool) {
                let g = with_mdk!(x, m => m.get_group(&gid)).ok().flatten();
                let listed = with_mdk!(x, m => m.groups_needing_self_update(3600)).map(|v| v.contains(&gid)).unwrap_or(false);
                (matches!(g.map(|g| g.self_update_state), Some(SelfUpdateState::Required)), listed)
            };
            let case = format!("{backend:?}|joiner-admin={joiner_admin}|first={first_op}");
            let mut check_pending = |when: &str, want: bool, rep: &mut Report| {
                let (req, listed) = obligation(&b);
                rep.case(&format!("joiner-goes-on|{case}|{when}|required={req}|listed={listed}"));
                rep.evaluations += 1;
                if req != want || listed != want {
                    rep.finding(
                        format!("C16|key-rotation-obligation|{}|{when}|joiner-admin={joiner_admin}", if want { "discharged-without-a-self-update" } else { "still-pending-after-the-self-update" }),
                        format!("joiner B ({case}): {when}: self_update_state required={req}, listed by groups_needing_self_update={listed}, expected {want}"),
                        json!({"backend": format!("{backend:?}"), "case": case, "when": when}),
                    );
                }
            };
            check_pending("after-accept", true, rep);
            // the first own operation
            let mut c_state: Option<(String, String)> = None;
            match first_op {
                "rename" => {
                    let ok = with_mdk!(b, m => m.update_group_data(&gid, NostrGroupDataUpdate::new().name("renamed-by-the-joiner"))).is_ok() && with_mdk!(b, m => m.merge_pending_commit(&gid)).is_ok();
                    if !ok {
                        rep.outcome(&format!("joiner-rename-refused|{case}"));
                    }
                    check_pending("after-own-rename-merged", true, rep);
                }
                "invite" => {
                    match with_mdk!(b, m => m.add_members(&gid, &[c.key_package_event()])) {
                        Ok(r) => {
                            let _ = with_mdk!(b, m => m.merge_pending_commit(&gid));
                            check_pending("after-own-invitation-merged", true, rep);
                            let rumor = r.welcome_rumors.and_then(|v| v.into_iter().next());
                            let res = rumor.map(|rum| with_mdk!(c, m => m.process_welcome(&wid("w-c"), &rum).and_then(|w| m.accept_welcome(&w))));
                            let ok = matches!(res, Some(Ok(_)));
                            let core = |x: &Client| x.group_obs(&gid).and_then(|o| o.mls.map(|m| (format!("{}|{}", m.epoch, m.authenticator), format!("{:?}|{}", m.members, m.ext))));
                            let (bc, cc) = (core(&b), core(&c));
                            rep.case(&format!("joiner-invites|{case}|accepted={ok}|same-state={}", bc == cc));
                            rep.evaluations += 1;
                            if !ok {
                                rep.finding(format!("C16|invitation-made-by-a-joiner-unusable|{}", res.map(|r| r.err().map(|e| err_variant(&e)).unwrap_or_default()).unwrap_or_else(|| "no-welcome-rumor".into())), "B joined through an invitation, then invited C: C cannot process / accept that invitation".into(), json!({"backend": format!("{backend:?}"), "case": case}));
                            } else if bc != cc {
                                rep.finding("C16|joiner-state-differs-from-inviter|inviter-is-a-joiner".into(), "C accepted the invitation of B (itself a joiner) and is not in B's post-commit state".into(), json!({"backend": format!("{backend:?}"), "inviter": bc, "joiner": cc}));
                            }
                            c_state = cc;
                        }
                        Err(e) => rep.outcome(&format!("joiner-invite-refused|{case}|{}", err_variant(&e))),
                    }
                }
                _ => {}
            }
            let _ = c_state;
            // the rotation itself
            let ok = with_mdk!(b, m => m.self_update(&gid)).is_ok();
            check_pending("self-update-created-not-merged", true, rep);
            let ok = ok && with_mdk!(b, m => m.merge_pending_commit(&gid)).is_ok();
            if !ok {
                rep.machinery_errors.push(format!("c16 chain: self_update of the joiner failed ({case})"));
                continue;
            }
            check_pending("after-self-update-merged", false, rep);
        }
    }
    // the invitation travels in an unsigned rumor: tags outside the MLS Welcome (the relay list) can be rewritten on the
    // way. Whatever they say, the joiner's relay set is the one of the group state it joined
    for variant in ["relays-tag-rewritten", "relays-tag-removed", "relays-tag-extended"] {
        let a = Client::new("A", Bk::Memory, &cfg);
        let b = Client::new("B", backend, &cfg);
        let cfgd = NostrGroupConfigData::new("tags".into(), "d".into(), None, None, None, vec![relay("wss://group.example")], vec![a.pk()]);
        let Ok(created) = with_mdk!(a, m => m.create_group(&a.pk(), vec![b.key_package_event()], cfgd)) else { continue };
        let gid = created.group.mls_group_id.clone();
        let _ = with_mdk!(a, m => m.merge_pending_commit(&gid));
        let mut rumor = created.welcome_rumors[0].clone();
        let tags: Vec<nostr::Tag> = rumor.tags.iter().filter(|t| t.as_slice()[0] != "relays").cloned().collect();
        let mut tags = tags;
        match variant {
            "relays-tag-rewritten" => tags.push(nostr::Tag::parse(["relays", "wss://elsewhere.example"]).unwrap()),
            "relays-tag-extended" => tags.push(nostr::Tag::parse(["relays", "wss://group.example", "wss://elsewhere.example"]).unwrap()),
            _ => {}
        }
        rumor.tags = tags.into_iter().collect();
        rumor.id = None;
        rumor.ensure_id();
        let res = with_mdk!(b, m => m.process_welcome(&wid(variant), &rumor).and_then(|w| m.accept_welcome(&w)));
        let relays_of = |x: &Client| -> Option<Vec<String>> { with_mdk!(x, m => m.get_relays(&gid)).ok().map(|r| r.iter().map(|u| u.to_string()).collect()) };
        let (ra, rb) = (relays_of(&a), relays_of(&b));
        rep.case(&format!("rumor-tags|{backend:?}|{variant}|accepted={}|same-relays={}", res.is_ok(), ra == rb));
        rep.evaluations += 1;
        if res.is_ok() && ra != rb {
            rep.finding(format!("C16|joiner-relays-differ-from-the-group's|{variant}"), format!("an invitation whose rumor carries {variant} is accepted; the joiner's relays are {rb:?}, the group's {ra:?}"), json!({"backend": format!("{backend:?}"), "variant": variant}));
        }
    }
    rep.states += 1;
}

/// C02, the sender's own copy across groups: the client is in a second group (its own, advanced to epoch 3 by self-updates
/// applied from their echo) and has an unconfirmed message there, created before / between / after the two commits of a
/// race in the first group that ends in a rollback. The echo of that message confirms it whatever the first group did.
pub fn c02_own_message_in_other_group(rep: &mut Report, backend: Bk) {
    let sc = base("c02-two-groups", &["A", "B", "Z"], &["A", "B"], &[], vec![act("A", ActKind::Rename("loser".into()), 20), act("B", ActKind::Rename("winner".into()), 10)]);
    let w = match build_world(&sc, backend) {
        Ok(w) => w,
        Err(e) => {
            rep.machinery_errors.push(format!("c02 two-groups world: {}", e.0));
            return;
        }
    };
    let idx = |s: &str| w.pool.iter().position(|p| p.label.contains(s)).unwrap();
    let (loser, winner) = (idx("A.rename0"), idx("B.rename1"));
    for pos in 0..3usize {
        let z = w.initial["Z"].fork();
        let cfgd = NostrGroupConfigData::new("own".into(), "second".into(), None, None, None, vec![relay("wss://own.example")], vec![z.pk()]);
        let Ok(g2) = with_mdk!(z, m => m.create_group(&z.pk(), vec![], cfgd)) else {
            rep.machinery_errors.push("c02 two-groups: create_group".into());
            return;
        };
        let g2id = g2.group.mls_group_id.clone();
        let _ = with_mdk!(z, m => m.merge_pending_commit(&g2id));
        for _ in 0..3 {
            if let Ok(u) = with_mdk!(z, m => m.self_update(&g2id)) {
                let _ = z.process(&u.evolution_event);
            }
        }
        let mut own: Option<nostr::Event> = None;
        let mut steps: Vec<String> = Vec::new();
        for k in 0..3usize {
            if k == pos {
                own = with_mdk!(z, m => m.create_message(&g2id, rumor(&z.keys, "own-message-in-the-second-group", now() - 30))).ok();
                steps.push(format!("create_message(g2) -> {}", own.is_some()));
            }
            if k < 2 {
                let i = [loser, winner][k];
                steps.push(format!("{} -> {}", w.pool[i].label, result_kind(&z.process(&w.pool[i].event))));
            }
        }
        let Some(own) = own else {
            rep.machinery_errors.push("c02 two-groups: create_message in g2".into());
            continue;
        };
        let r = z.process(&own);
        steps.push(format!("echo of the g2 message -> {}", result_kind(&r)));
        let state = with_mdk!(z, m => m.get_messages(&g2id, None)).ok().and_then(|v| v.into_iter().find(|m| m.wrapper_event_id == own.id).map(|m| m.state.as_str().to_string())).unwrap_or_else(|| "not-stored".into());
        let g1_name = z.group_obs(&w.gid).map(|o| o.record["name"].as_str().unwrap_or("").to_string()).unwrap_or_default();
        rep.case(&format!("own-message-other-group|{backend:?}|{pos}|{}|{state}|g1={g1_name}", result_kind(&r)));
        rep.evaluations += 1;
        if state != "processed" {
            rep.finding(
                format!("C02|own-message-of-another-group-not-confirmed|created={}|ends-{state}|{backend:?}", ["before-the-race", "between-the-commits", "after-the-rollback"][pos]),
                format!("own message in the second group (epoch 3) is not confirmed by its echo after a rollback in the first group: [{}]", steps.join(" ; ")),
                json!({"backend": format!("{backend:?}"), "steps": steps}),
            );
        }
    }
    rep.states += 1;
}
