//! C06: hostile or malformed input never panics and a refused event has no effect.
//! Enumerated mutation families x receiver states, on real clients.

use mdk_core::prelude::*;
use nostr::{Event, EventBuilder, Keys, Kind, Tag, TagKind, Timestamp, UnsignedEvent};
use serde_json::{Value, json};

use crate::adversary::*;
use crate::explore::{Action, step};
use crate::families::*;
use crate::lab::*;
use crate::report::Report;
use crate::scenario::*;
use crate::with_mdk;

fn h_of(ev: &Event) -> [u8; 32] {
    let t = ev.tags.iter().find(|t| t.kind() == TagKind::h()).and_then(|t| t.content()).unwrap_or("");
    hex::decode(t).ok().and_then(|b| b.try_into().ok()).unwrap_or([0; 32])
}

fn resign(kind: Kind, content: &str, tags: Vec<Tag>, created_at: u64) -> Event {
    EventBuilder::new(kind, content).tags(tags).custom_created_at(Timestamp::from_secs(created_at)).sign_with_keys(&Keys::generate()).unwrap()
}

/// outer mutations of one valid wrapper
fn outer_mutations(ev: &Event, foreign_h: [u8; 32], step_by: usize) -> Vec<(String, Event)> {
    let ts = ev.created_at.as_secs();
    let htag = |h: &str| Tag::custom(TagKind::h(), [h.to_string()]);
    let good_h = hex::encode(h_of(ev));
    let mut v: Vec<(String, Event)> = Vec::new();
    v.push(("kind-text-note".into(), resign(Kind::TextNote, &ev.content, vec![htag(&good_h)], ts)));
    v.push(("kind-welcome".into(), resign(Kind::MlsWelcome, &ev.content, vec![htag(&good_h)], ts)));
    v.push(("no-h-tag".into(), resign(ev.kind, &ev.content, vec![], ts)));
    v.push(("two-h-tags".into(), resign(ev.kind, &ev.content, vec![htag(&good_h), htag(&good_h)], ts)));
    v.push(("short-h".into(), resign(ev.kind, &ev.content, vec![htag("abcd")], ts)));
    v.push(("non-hex-h".into(), resign(ev.kind, &ev.content, vec![htag(&"zz".repeat(32))], ts)));
    v.push(("long-h".into(), resign(ev.kind, &ev.content, vec![htag(&"ab".repeat(33))], ts)));
    v.push(("foreign-h".into(), resign(ev.kind, &ev.content, vec![htag(&hex::encode(foreign_h))], ts)));
    v.push(("unknown-h".into(), resign(ev.kind, &ev.content, vec![htag(&"77".repeat(32))], ts)));
    let now_ts = now();
    let d = mdk_core::MdkConfig::default();
    for (label, t) in [("created-at-0", 0u64), ("created-at-too-old", now_ts - d.max_event_age_secs - 10), ("created-at-old-but-ok", now_ts - d.max_event_age_secs + 10), ("created-at-future-ok", now_ts + d.max_future_skew_secs - 10), ("created-at-too-far-future", now_ts + d.max_future_skew_secs + 10), ("created-at-max", u64::MAX / 2)] {
        v.push((label.to_string(), resign(ev.kind, &ev.content, vec![htag(&good_h)], t)));
    }
    v.push(("content-empty".into(), resign(ev.kind, "", vec![htag(&good_h)], ts)));
    v.push(("content-not-base64".into(), resign(ev.kind, "!!! not base64 !!!", vec![htag(&good_h)], ts)));
    let chars: Vec<char> = ev.content.chars().collect();
    let mut k = 0;
    while k < chars.len() {
        v.push(("content-truncated".into(), resign(ev.kind, &chars[..k].iter().collect::<String>(), vec![htag(&good_h)], ts)));
        let mut c = chars.clone();
        c[k] = if c[k] == 'A' { 'B' } else { 'A' };
        v.push(("content-char-changed".into(), resign(ev.kind, &c.iter().collect::<String>(), vec![htag(&good_h)], ts)));
        k += step_by;
    }
    v
}

/// inner mutations: the MLS payload is changed and re-encrypted under the right exporter secret
fn inner_mutations(sender: &Client, gid: &GroupId, epoch: u64, mls: &[u8], h: [u8; 32], ts: u64, step_by: usize) -> Vec<(String, Event)> {
    let mut v: Vec<(String, Event)> = Vec::new();
    let mut k = 0;
    while k < mls.len() {
        if let Ok(e) = wrap(sender, gid, epoch, &mls[..k], h, ts) {
            v.push(("mls-truncated".into(), e));
        }
        let mut c = mls.to_vec();
        c[k] ^= 0x01;
        if let Ok(e) = wrap(sender, gid, epoch, &c, h, ts) {
            v.push(("mls-byte-changed".into(), e));
        }
        let mut c = mls.to_vec();
        c[k] = c[k].wrapping_add(1);
        if k < 40 {
            if let Ok(e) = wrap(sender, gid, epoch, &c, h, ts) {
                v.push(("mls-header-byte-plus-one".into(), e));
            }
        }
        k += step_by;
    }
    let mut c = mls.to_vec();
    c.extend_from_slice(&[0, 0, 0]);
    if let Ok(e) = wrap(sender, gid, epoch, &c, h, ts) {
        v.push(("mls-trailing-bytes".into(), e));
    }
    for (label, bytes) in [("mls-empty", vec![]), ("mls-one-byte", vec![0u8]), ("mls-huge-length-prefix", vec![0, 1, 0, 2, 0xbf, 0xff, 0xff, 0xff]), ("mls-zeros", vec![0u8; 200])] {
        if let Ok(e) = wrap(sender, gid, epoch, &bytes, h, ts) {
            v.push((label.to_string(), e));
        }
    }
    v
}

fn refused(kind: &str) -> bool {
    kind.starts_with("Err") || kind == "Unprocessable" || kind == "PreviouslyFailed" || kind == "IgnoredProposal"
}

fn diff_keys(a: &Value, b: &Value) -> String {
    let mut parts = Vec::new();
    let ga = a["groups"].as_array().cloned().unwrap_or_default();
    let gb = b["groups"].as_array().cloned().unwrap_or_default();
    if ga.len() != gb.len() {
        parts.push("group-count".to_string());
    }
    for (x, y) in ga.iter().zip(gb.iter()) {
        for k in ["record", "mls", "relays", "messages", "pending_adds", "pending_removes", "proposal_refs", "pending_commit", "own_leaf", "record_state", "last_message"] {
            if x[k] != y[k] {
                parts.push(k.to_string());
            }
        }
    }
    if a["pending_welcomes"] != b["pending_welcomes"] || a["welcomes"] != b["welcomes"] {
        parts.push("welcomes".into());
    }
    parts.sort();
    parts.dedup();
    parts.join("+")
}

pub fn run(rep: &mut Report, backend: Bk, thorough: bool) {
    // G1: A, B admins; C, X, Z members; pool: C's message, C's leave proposal, A's rename commit, A removes X
    let sc = base(
        "c06",
        &["A", "B", "C", "X", "Z"],
        &["A", "B"],
        &["D", "O"],
        vec![act("C", ActKind::Msg("hello".into()), 5), act("C", ActKind::Leave, 6), act("A", ActKind::Rename("renamed".into()), 10), act("B", ActKind::Remove("Z".into()), 20).then(vec![])],
    );
    let w = match build_world(&sc, backend) {
        Ok(w) => w,
        Err(e) => {
            rep.machinery_errors.push(format!("c06 world: {}", e.0));
            return;
        }
    };
    let idx = |s: &str| w.pool.iter().position(|p| p.label.contains(s)).unwrap();
    let (msg_i, leave_i, commit_i, remove_z) = (idx("C.msg0"), idx("C.leave1"), idx("A.rename2"), idx("B.remove3"));
    let gid = w.gid.clone();
    let now_ts = now();
    // the receiver also holds an unrelated second group
    let z = &w.initial["Z"];
    let cfgd = NostrGroupConfigData::new("own".into(), "unrelated".into(), None, None, None, vec![relay("wss://own.example")], vec![z.pk()]);
    let g2 = with_mdk!(z, m => m.create_group(&z.pk(), vec![], cfgd)).ok().map(|r| r.group);
    let foreign_h = g2.as_ref().map(|g| g.nostr_group_id).unwrap_or([0x55; 32]);
    let wids = w.welcome_ids();

    // receiver states
    let mut states: Vec<(&str, Client)> = Vec::new();
    states.push(("idle", z.fork()));
    {
        let c = z.fork();
        let _ = with_mdk!(c, m => m.self_update(&gid));
        states.push(("own-pending-commit", c));
    }
    {
        let c = step(&w, z, Action::Deliver(leave_i)).client;
        states.push(("proposal-queued", c));
    }
    {
        let c = step(&w, z, Action::Deliver(remove_z)).client;
        states.push(("inactive-evicted", c));
    }
    {
        // C's message stored, then A's commit applied: late events of the previous epoch and ids of stored messages meet this state
        let c = step(&w, z, Action::Deliver(msg_i)).client;
        let c = step(&w, &c, Action::Deliver(commit_i)).client;
        states.push(("message-stored-next-epoch", c));
    }
    if thorough {
        let c = step(&w, z, Action::Deliver(commit_i)).client;
        states.push(("next-epoch", c));
    }
    if backend == Bk::Sqlite {
        // the commit applied, then the process restarted: what decides about competitors is rebuilt from storage
        let c = step(&w, z, Action::Deliver(commit_i)).client.restart();
        states.push(("next-epoch-restarted", c));
    }

    // mutation families per valid event kind
    let step_outer = if thorough { 1 } else { 23 };
    let step_inner = if thorough { 1 } else { 11 };
    let root_epoch = w.nodes[&vec![]].core.epoch;
    let sender_c = w.nodes[&vec![]].clients["C"].fork();
    let sender_a = w.nodes[&vec![]].clients["A"].fork();
    let kinds: Vec<(&str, usize, &Client)> = vec![("message", msg_i, &sender_c), ("proposal", leave_i, &sender_c), ("commit", commit_i, &sender_a)];
    let mut muts: Vec<(String, String, Event)> = Vec::new();
    for (kname, i, sender) in &kinds {
        let ev = &w.pool[*i].event;
        // the valid event itself: wherever it is refused (already handled, wrong epoch, evicted) nothing changes either
        muts.push((kname.to_string(), "unmodified".into(), ev.clone()));
        for (label, e) in outer_mutations(ev, foreign_h, step_outer) {
            muts.push((kname.to_string(), label, e));
        }
        // recover the MLS bytes of the valid event: NIP-44 decrypt with the epoch's exporter secret
        let secret = with_mdk!(sender, m => { use mdk_storage_traits::groups::GroupStorage; use openmls::prelude::OpenMlsProvider; m.provider.storage().get_group_exporter_secret(&gid, root_epoch) }).ok().flatten();
        if let Some(s) = secret {
            let sk = nostr::SecretKey::from_slice(s.secret.as_ref()).unwrap();
            let k = Keys::new(sk);
            if let Ok(mls) = nostr::nips::nip44::decrypt_to_bytes(k.secret_key(), &k.public_key, &ev.content) {
                for (label, e) in inner_mutations(sender, &gid, root_epoch, &mls, h_of(ev), ev.created_at.as_secs(), step_inner) {
                    muts.push((kname.to_string(), label, e));
                }
            }
        }
    }
    // application payloads: malformed / oversized / deep JSON inside a valid MLS application message
    let deep = format!("{}1{}", "[".repeat(3000), "]".repeat(3000));
    let payloads: Vec<(&str, Vec<u8>)> = vec![
        ("json-empty", b"".to_vec()),
        ("json-not-json", b"not json".to_vec()),
        ("json-null", b"null".to_vec()),
        ("json-array", b"[]".to_vec()),
        ("json-object-empty", b"{}".to_vec()),
        ("json-missing-fields", br#"{"content":"x"}"#.to_vec()),
        ("json-wrong-types", br#"{"pubkey":1,"created_at":"x","kind":"y","tags":{},"content":[]}"#.to_vec()),
        ("json-invalid-utf8", vec![0xff, 0xfe, 0x7b]),
        ("json-deep-nesting", deep.into_bytes()),
        ("json-huge-content", format!(r#"{{"pubkey":"{}","created_at":1,"kind":9,"tags":[],"content":"{}"}}"#, w.nodes[&vec![]].clients["X"].pk().to_hex(), "x".repeat(if thorough { 1_100_000 } else { 200_000 })).into_bytes()),
        ("json-many-tags", format!(r#"{{"pubkey":"{}","created_at":1,"kind":9,"tags":[{}],"content":"t"}}"#, w.nodes[&vec![]].clients["X"].pk().to_hex(), vec![r#"["t","x"]"#; 20000].join(",")).into_bytes()),
        ("json-kind-out-of-range", format!(r#"{{"pubkey":"{}","created_at":1,"kind":70000,"tags":[],"content":"t"}}"#, w.nodes[&vec![]].clients["X"].pk().to_hex()).into_bytes()),
        ("json-time-2^63", format!(r#"{{"pubkey":"{}","created_at":9223372036854775808,"kind":9,"tags":[],"content":"t63"}}"#, w.nodes[&vec![]].clients["X"].pk().to_hex()).into_bytes()),
        ("json-time-2^63-1", format!(r#"{{"pubkey":"{}","created_at":9223372036854775807,"kind":9,"tags":[],"content":"t63m"}}"#, w.nodes[&vec![]].clients["X"].pk().to_hex()).into_bytes()),
        ("json-time-u64-max", format!(r#"{{"pubkey":"{}","created_at":18446744073709551615,"kind":9,"tags":[],"content":"tmax"}}"#, w.nodes[&vec![]].clients["X"].pk().to_hex()).into_bytes()),
        ("json-negative-time", format!(r#"{{"pubkey":"{}","created_at":-5,"kind":9,"tags":[],"content":"t"}}"#, w.nodes[&vec![]].clients["X"].pk().to_hex()).into_bytes()),
    ];
    let sender_x = w.nodes[&vec![]].clients["X"].fork();
    // a well-formed rumor of X's own whose pre-set id is the id of C's message (which the receiver stores in some states)
    let mut payloads = payloads;
    if let Some(victim) = w.pool[msg_i].rumor.as_ref().and_then(|r| r.id) {
        payloads.push(("json-id-of-a-stored-message", format!(r#"{{"id":"{}","pubkey":"{}","created_at":{},"kind":9,"tags":[],"content":"filed under another message's id"}}"#, victim.to_hex(), w.nodes[&vec![]].clients["X"].pk().to_hex(), now_ts - 7).into_bytes()));
    }
    for (label, p) in &payloads {
        let s = sender_x.fork();
        match app_message(&s, &gid, p, now_ts - 5) {
            Ok(e) => muts.push(("app-payload".into(), label.to_string(), e)),
            Err(e) => rep.outcome(&format!("app-payload-not-buildable:{label}:{}", e.0.chars().take(60).collect::<String>())),
        }
    }

    // valid stand-alone proposals of the kinds MDK ignores (and the ones it queues): a refusal must leave no trace
    {
        let pk_of = |n: &str| w.pks_by_name.get(n).and_then(|h| nostr::PublicKey::from_hex(h).ok());
        let d_kp = w.initial["D"].key_package_event();
        for (label, pc) in [
            ("valid-update-proposal", ProposalContent::Update),
            ("valid-update-proposal-other-identity", ProposalContent::UpdateWithIdentity("C".into())),
            ("valid-group-context-extensions-proposal", ProposalContent::Rename("by-proposal".into())),
            ("valid-add-proposal", ProposalContent::Add),
            ("valid-remove-proposal", ProposalContent::Remove("C".into())),
        ] {
            let s = sender_x.fork();
            match raw_proposal(&s, &gid, &pc, &pk_of, Some(&d_kp), now_ts - 5) {
                Ok(e) => muts.push(("proposal".into(), label.to_string(), e)),
                Err(e) => rep.outcome(&format!("proposal-not-buildable:{label}:{}", e.0.chars().take(50).collect::<String>())),
            }
        }
    }

    // a hostile admin puts an invalid group-data extension into an otherwise valid commit
    {
        let pk_of = |n: &str| w.pks_by_name.get(n).and_then(|h| nostr::PublicKey::from_hex(h).ok());
        let base_ext = with_mdk!(sender_a, m => m.load_mls_group(&gid)).ok().flatten().and_then(|g| mdk_core::extension::NostrGroupDataExtension::from_group(&g).ok());
        if let Some(base_ext) = base_ext {
            for (label, bytes) in crate::shapes::hostile_group_data(&base_ext, if thorough { 1 } else { 9 }) {
                let s = sender_a.fork();
                match raw_commit(&s, &gid, &CommitContent::RawGroupData(bytes), &pk_of, None, now_ts - 5) {
                    Ok(e) => muts.push(("admin-commit-with-group-data".into(), label, e)),
                    Err(e) => rep.outcome(&format!("admin-commit-not-buildable:{label}:{}", e.0.chars().take(40).collect::<String>())),
                }
            }
        } else {
            rep.machinery_errors.push("c06: cannot read the group-data extension of the sender".into());
        }
    }

    // deliver everything to every receiver state
    let work: Vec<(usize, usize)> = (0..states.len()).flat_map(|s| (0..muts.len()).map(move |m| (s, m))).collect();
    let next = std::sync::atomic::AtomicUsize::new(0);
    let findings: std::sync::Mutex<Vec<(String, String, Value)>> = std::sync::Mutex::new(Vec::new());
    let outcomes: std::sync::Mutex<std::collections::BTreeMap<String, u64>> = std::sync::Mutex::new(Default::default());
    let leaks: std::sync::Mutex<std::collections::BTreeSet<String>> = std::sync::Mutex::new(Default::default());
    let records = std::sync::atomic::AtomicUsize::new(0);
    std::thread::scope(|sc| {
        for _ in 0..crate::e1::threads() {
            sc.spawn(|| loop {
                let i = next.fetch_add(1, std::sync::atomic::Ordering::Relaxed);
                if i >= work.len() {
                    break;
                }
                let (si, mi) = work[i];
                let (slabel, base_c) = &states[si];
                let (kname, label, ev) = &muts[mi];
                let r = base_c.fork();
                let before = r.obs(&wids);
                crate::logcap::begin();
                let res = std::panic::catch_unwind(std::panic::AssertUnwindSafe(|| r.process(ev)));
                if let Ok(x) = &res {
                    crate::logcap::note(format!("{x:?}"));
                    if let Err(e) = x {
                        crate::logcap::note(format!("{e}"));
                    }
                }
                let recs = crate::logcap::end();
                for l in crate::logcap::scan(&recs, &w.secrets) {
                    leaks.lock().unwrap().insert(l);
                }
                records.fetch_add(recs.len(), std::sync::atomic::Ordering::Relaxed);
                let kind = match &res {
                    Ok(x) => result_kind(x),
                    Err(_) => "PANIC".into(),
                };
                // reading the state back runs the same decoders: a panic there is the same finding, not a harness crash
                let after = match std::panic::catch_unwind(std::panic::AssertUnwindSafe(|| r.obs(&wids))) {
                    Ok(a) => a,
                    Err(_) => {
                        findings.lock().unwrap().push((format!("C06|panic|{kname}|{label}|{slabel}|while-reading-the-state-afterwards"), format!("after a {kname} with {label} ({kind}) in state {slabel}, reading the group state panics"), json!({"event_kind": kname, "mutation": label, "state": slabel, "result": kind})));
                        continue;
                    }
                };
                if std::env::var("VERIF_DEBUG2").is_ok() && label.starts_with("json-time") {
                    eprintln!("DEBUG2 {backend:?} {label} {slabel} -> {kind} changed={}", before != after);
                }
                *outcomes.lock().unwrap().entry(format!("{kname}:{label}:{slabel}:{kind}")).or_insert(0) += 1;
                // whatever the answer, only a commit moves a group to another epoch
                if kname != "commit" && !kname.starts_with("admin-commit") {
                    let ep = |v: &Value| -> Vec<Option<u64>> { v["groups"].as_array().map(|a| a.iter().map(|g| g["mls"]["epoch"].as_u64()).collect()).unwrap_or_default() };
                    if ep(&before) != ep(&after) {
                        findings.lock().unwrap().push((
                            format!("C06|event-that-is-not-a-commit-changed-the-epoch|{kname}|{label}|{slabel}|{kind}"),
                            format!("a {kname} ({label}) in state {slabel} is answered {kind} and the group's epoch went from {:?} to {:?}", ep(&before), ep(&after)),
                            json!({"event_kind": kname, "mutation": label, "state": slabel, "result": kind, "backend": format!("{backend:?}")}),
                        ));
                    }
                }
                if kind == "PANIC" {
                    findings.lock().unwrap().push((format!("C06|panic|{kname}|{label}|{slabel}"), format!("process_message panics on a {kname} with {label} in state {slabel}"), json!({"event_kind": kname, "mutation": label, "state": slabel, "event": ev, "backend": format!("{backend:?}")})));
                } else if refused(&kind) && before != after {
                    let what = diff_keys(&before, &after);
                    findings.lock().unwrap().push((
                        format!("C06|refused-event-changed-state|{kname}|{label}|{slabel}|{what}"),
                        format!("a {kname} with {label} is refused ({kind}) in state {slabel} but changed {what}"),
                        json!({"event_kind": kname, "mutation": label, "state": slabel, "result": kind, "changed": what, "backend": format!("{backend:?}")}),
                    ));
                }
            });
        }
    });
    if rep.prop == "C14" {
        // used as the hostile-input part of C14: only the leak scan counts
        for l in leaks.into_inner().unwrap() {
            rep.finding(format!("C14|{l}"), format!("sensitive value in log/error/result while processing hostile input: {l}"), json!({"engine": "c06-monitor", "leak": l}));
        }
        rep.evaluations += records.load(std::sync::atomic::Ordering::Relaxed) as u64;
        rep.add_count("hostile_input_log_records_scanned", records.load(std::sync::atomic::Ordering::Relaxed) as u64);
        return;
    }
    for (sig, what, d) in findings.into_inner().unwrap() {
        rep.finding(sig, what, d);
    }
    for (k, v) in outcomes.into_inner().unwrap() {
        rep.distinct.insert(h64(&k));
        rep.evaluations += v;
        let short: Vec<&str> = k.split(':').collect();
        *rep.outcomes.entry(format!("{}:{}", short[0], short[3])).or_insert(0) += v;
    }
    rep.add_count("mutated_events", muts.len() as u64);
    rep.add_count("receiver_states", states.len() as u64);

    // ---- welcomes ------------------------------------------------------------------------------------------------
    {
        use nostr::base64::Engine;
        let b64 = nostr::base64::engine::general_purpose::STANDARD;
        // a fresh invitation for D
        let a = w.nodes[&vec![]].clients["A"].fork();
        let _ = with_mdk!(a, m => m.clear_pending_commit(&gid));
        let d = w.initial["D"].fork();
        let kp = d.key_package_event();
        if let Ok(r) = with_mdk!(a, m => m.add_members(&gid, &[kp])) {
            if let Some(rumor) = r.welcome_rumors.and_then(|v| v.into_iter().next()) {
                let raw = b64.decode(&rumor.content).unwrap_or_default();
                let tags: Vec<Tag> = rumor.tags.iter().cloned().collect();
                let mk = |tags: Vec<Tag>, content: String, with_id: bool| -> UnsignedEvent {
                    let mut r = EventBuilder::new(Kind::MlsWelcome, content).tags(tags).build(a.pk());
                    if with_id {
                        r.ensure_id();
                    } else {
                        r.id = None;
                    }
                    r
                };
                let mut wm: Vec<(String, UnsignedEvent)> = Vec::new();
                wm.push(("id-absent".into(), mk(tags.clone(), rumor.content.clone(), false)));
                let stepw = if thorough { 1 } else { 37 };
                let mut k = 0;
                while k < raw.len() {
                    wm.push(("welcome-truncated".into(), mk(tags.clone(), b64.encode(&raw[..k]), true)));
                    let mut c = raw.clone();
                    c[k] ^= 1;
                    wm.push(("welcome-byte-changed".into(), mk(tags.clone(), b64.encode(&c), true)));
                    k += stepw;
                }
                for n in ["relays", "e", "encoding", "client"] {
                    wm.push((format!("tag-{n}-removed"), mk(tags.iter().filter(|t| t.as_slice()[0] != n).cloned().collect(), rumor.content.clone(), true)));
                    let mut dup = tags.clone();
                    if let Some(t) = tags.iter().find(|t| t.as_slice()[0] == n) {
                        dup.push(t.clone());
                    }
                    wm.push((format!("tag-{n}-duplicated"), mk(dup, rumor.content.clone(), true)));
                    wm.push((format!("tag-{n}-emptied"), mk(tags.iter().map(|t| if t.as_slice()[0] == n { Tag::parse([n.to_string()]).unwrap() } else { t.clone() }).collect(), rumor.content.clone(), true)));
                }
                let dstates: Vec<(&str, Client)> = vec![("not-a-member", d.fork()), ("member-of-another-group", z.fork())];
                for (slabel, dc) in &dstates {
                    for (label, r) in &wm {
                        let c = dc.fork();
                        let before = c.obs(&wids);
                        let groups_before = c.groups().len();
                        let wid = nostr::EventId::from_slice(&sha2_32(format!("c06-{label}-{}", r.content.len()).as_bytes())).unwrap();
                        let res = std::panic::catch_unwind(std::panic::AssertUnwindSafe(|| with_mdk!(c, m => m.process_welcome(&wid, r))));
                        rep.evaluations += 1;
                        rep.distinct.insert(h64(&format!("welcome|{label}|{slabel}|{}", res.is_ok())));
                        rep.outcome(&format!("welcome:{label}:{}", match &res { Ok(Ok(_)) => "Ok".to_string(), Ok(Err(e)) => format!("Err({})", err_variant(e)), Err(_) => "PANIC".into() }));
                        match res {
                            Err(_) => rep.finding(format!("C06|panic|welcome|{label}|{slabel}"), format!("process_welcome panics on {label}"), json!({"mutation": label})),
                            Ok(Err(_)) => {
                                let after = c.obs(&wids);
                                if before != after || c.groups().len() != groups_before {
                                    rep.finding(format!("C06|refused-welcome-changed-state|{label}|{slabel}"), format!("a welcome with {label} is refused but left something behind (groups before {groups_before}, after {})", c.groups().len()), json!({"mutation": label, "state": slabel, "backend": format!("{backend:?}")}));
                                }
                            }
                            Ok(Ok(_)) => {}
                        }
                    }
                }
                rep.add_count("welcome_mutations", wm.len() as u64);
            }
        }
    }
    rep.states += states.len() as u64;
    rep.sample(json!({"event_kind": "commit", "mutation": "mls-byte-changed (re-encrypted under the epoch's exporter secret)", "state": "own-pending-commit"}));
}

/// Key-package events whose tag values come from the malformed-string menu: the parser returns, never panics.
pub fn key_package_tags(rep: &mut Report) {
    let c = Client::new("kp", Bk::Memory, &Cfg::default());
    let ev = c.key_package_event();
    let tags0: Vec<Tag> = ev.tags.iter().cloned().collect();
    let menu = string_menu();
    let mut n = 0u64;
    for name in ["mls_protocol_version", "mls_ciphersuite", "mls_extensions", "relays", "i", "encoding", "client"] {
        for val in &menu {
            if val.len() > 100_000 {
                continue;
            }
            for arity in [1usize, 2] {
                let tags: Vec<Tag> = tags0.iter().map(|t| if t.as_slice()[0] == name { Tag::parse(std::iter::once(name.to_string()).chain(std::iter::repeat(val.clone()).take(arity))).unwrap_or_else(|_| t.clone()) } else { t.clone() }).collect();
                let e = EventBuilder::new(Kind::MlsKeyPackage, ev.content.clone()).tags(tags).sign_with_keys(&c.keys).unwrap();
                n += 1;
                rep.distinct.insert(h64(&format!("kp-tag|{name}|{}|{arity}", val.len().min(80))));
                let r = std::panic::catch_unwind(std::panic::AssertUnwindSafe(|| with_mdk!(c, m => m.parse_key_package(&e)).is_ok()));
                if r.is_err() {
                    rep.finding(format!("C06|panic|key-package|tag={name}"), format!("parse_key_package panics when the {name} tag carries {:?}", val.chars().take(30).collect::<String>()), json!({"tag": name, "value_prefix": val.chars().take(60).collect::<String>(), "value_len": val.len()}));
                }
            }
        }
    }
    rep.evaluations += n;
    rep.add_count("key_package_tag_cases", n);
}

pub fn string_menu() -> Vec<String> {
    vec![
        "".into(), " ".into(), "0".into(), "zz".into(), "abc".into(), "ab".repeat(31), "ab".repeat(32), "ab".repeat(33), "AB".repeat(32), "0x".to_string() + &"ab".repeat(32),
        "null".into(), "{}".into(), "[]".into(), "\"\"".into(), "{\"id\":1}".into(), "{\"id\":\"x\"".into(), "[[[[[[[[[[".into(), "\u{0}".into(), "\u{feff}{}".into(), "\\u0000".into(),
        "npub1".into(), "npub1qqqqqqqqqqqqqqqqqqqqqqqqqqqqqqqqqqqqqqqqqqqqqqqqqqqsutczrm".into(), "wss://".into(), "ws://x".into(), "http://x".into(), "wss://a b".into(), "created_at_first".into(), "processed_at_first".into(), "CREATED".into(),
        "{\"kind\":445,\"content\":\"\",\"tags\":[],\"pubkey\":\"00\",\"created_at\":0,\"id\":\"00\",\"sig\":\"00\"}".into(),
        "9".repeat(400), "a".repeat(1_000_000), format!("{}1{}", "[".repeat(5000), "]".repeat(5000)), "{\"a\":".repeat(2000), "\u{1F600}".repeat(100), "\u{e9}".into(), "0\u{e9}001".into(), "0x\u{e9}00".into(), "\u{e9}x0001".into(), "0x00\u{e9}".into(), "1.0".into(), "0x0001".into(), "0xf2ee".into(), "0x000a".into(), "-1".into(), "1e309".into(), "true".into(),
    ]
}

/// Binding layer: every string / JSON argument of the uniffi API x a menu of malformed strings.
pub fn bindings(rep: &mut Report) {
    let dir = scratch_root().join("uniffi");
    let _ = std::fs::create_dir_all(&dir);
    let path = dir.join("b.db");
    let m = match mdk_uniffi::new_mdk_unencrypted(path.to_string_lossy().to_string(), None) {
        Ok(m) => m,
        Err(e) => {
            rep.machinery_errors.push(format!("uniffi new_mdk_unencrypted: {e:?}"));
            return;
        }
    };
    let menu: Vec<String> = string_menu();
    let mut calls = 0u64;
    let mut check = |name: &str, arg: &str, r: std::thread::Result<bool>| {
        calls += 1;
        rep.distinct.insert(h64(&format!("{name}|{}", arg.len().min(70))));
        if r.is_err() {
            rep.finding(format!("C06|binding-panics|{name}"), format!("uniffi {name} panics on argument {:?}", arg.chars().take(40).collect::<String>()), json!({"method": name, "argument_prefix": arg.chars().take(80).collect::<String>(), "argument_len": arg.len()}));
        }
    };
    for s in &menu {
        let a = s.clone();
        macro_rules! call {
            ($name:expr, $e:expr) => {
                check($name, &a, std::panic::catch_unwind(std::panic::AssertUnwindSafe(|| $e.is_ok())))
            };
        }
        call!("create_key_package_for_event(pubkey)", m.create_key_package_for_event(a.clone(), vec!["wss://r.example".into()]));
        call!("create_key_package_for_event(relay)", m.create_key_package_for_event("ab".repeat(32), vec![a.clone()]));
        call!("parse_key_package", m.parse_key_package(a.clone()));
        call!("get_group", m.get_group(a.clone()));
        call!("get_members", m.get_members(a.clone()));
        call!("get_messages(group)", m.get_messages(a.clone(), Some(1), Some(0), None));
        call!("get_messages(sort)", m.get_messages("ab".repeat(4), None, None, Some(a.clone())));
        call!("get_message(group)", m.get_message(a.clone(), "ab".repeat(32)));
        call!("get_message(event)", m.get_message("ab".repeat(4), a.clone()));
        call!("get_last_message(group)", m.get_last_message(a.clone(), "created_at_first".into()));
        call!("get_last_message(sort)", m.get_last_message("ab".repeat(4), a.clone()));
        call!("get_welcome", m.get_welcome(a.clone()));
        call!("process_welcome(wrapper)", m.process_welcome(a.clone(), "{}".into()));
        call!("process_welcome(rumor)", m.process_welcome("ab".repeat(32), a.clone()));
        call!("accept_welcome_json", m.accept_welcome_json(a.clone()));
        call!("decline_welcome_json", m.decline_welcome_json(a.clone()));
        call!("get_relays", m.get_relays(a.clone()));
        call!("create_group(creator)", m.create_group(a.clone(), vec![], "n".into(), "d".into(), vec!["wss://r.example".into()], vec![]));
        call!("create_group(kp-json)", m.create_group("ab".repeat(32), vec![a.clone()], "n".into(), "d".into(), vec!["wss://r.example".into()], vec!["ab".repeat(32)]));
        call!("create_group(name)", m.create_group("ab".repeat(32), vec![], a.clone(), a.clone(), vec!["wss://r.example".into()], vec!["ab".repeat(32)]));
        call!("create_group(relay)", m.create_group("ab".repeat(32), vec![], "n".into(), "d".into(), vec![a.clone()], vec!["ab".repeat(32)]));
        call!("create_group(admin)", m.create_group("ab".repeat(32), vec![], "n".into(), "d".into(), vec!["wss://r.example".into()], vec![a.clone()]));
        call!("add_members(group)", m.add_members(a.clone(), vec![]));
        call!("add_members(kp-json)", m.add_members("ab".repeat(4), vec![a.clone()]));
        call!("remove_members(group)", m.remove_members(a.clone(), vec![]));
        call!("remove_members(pubkey)", m.remove_members("ab".repeat(4), vec![a.clone()]));
        call!("merge_pending_commit", m.merge_pending_commit(a.clone()));
        call!("clear_pending_commit", m.clear_pending_commit(a.clone()));
        call!("sync_group_metadata_from_mls", m.sync_group_metadata_from_mls(a.clone()));
        call!("create_message(group)", m.create_message(a.clone(), "ab".repeat(32), "c".into(), 9, None));
        call!("create_message(sender)", m.create_message("ab".repeat(4), a.clone(), "c".into(), 9, None));
        call!("create_message(content,tags)", m.create_message("ab".repeat(4), "ab".repeat(32), a.clone(), 9, Some(vec![vec![a.clone()], vec![], vec![a.clone(), a.clone()]])));
        call!("self_update", m.self_update(a.clone()));
        call!("leave_group", m.leave_group(a.clone()));
        call!("process_message", m.process_message(a.clone()));
        call!("prepare_group_image_for_upload", mdk_uniffi::prepare_group_image_for_upload(a.clone().into_bytes(), a.clone()));
        call!("decrypt_group_image", mdk_uniffi::decrypt_group_image(a.clone().into_bytes(), Some(a.clone().into_bytes()), a.clone().into_bytes(), a.clone().into_bytes()));
        call!("derive_upload_keypair", mdk_uniffi::derive_upload_keypair(a.clone().into_bytes(), 2));
    }
    rep.evaluations += calls;
    rep.add_count("binding_calls", calls);
    let _ = std::fs::remove_dir_all(&dir);
}
