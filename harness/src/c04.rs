//! C04: stored messages are bound to their authenticated sender and to their own content.
//! Full product of forged rumor fields x sender role x receiver x base state, on real clients.

use std::collections::BTreeMap;

use mdk_core::prelude::*;
use mdk_storage_traits::messages::types::Message;
use nostr::{Event, EventId, Kind, PublicKey, Tags, Timestamp};
use serde_json::{Value, json};

use crate::adversary::*;
use crate::explore::{Action, step};
use crate::families::*;
use crate::lab::*;
use crate::report::Report;
use crate::scenario::*;
use crate::with_mdk;

fn all_messages(c: &Client) -> BTreeMap<(String, String), Message> {
    let mut out = BTreeMap::new();
    for g in c.groups() {
        let ms = with_mdk!(c, m => m.get_messages(&g.mls_group_id, Some(mdk_storage_traits::groups::Pagination::new(Some(10000), Some(0))))).unwrap_or_default();
        for m in ms {
            out.insert((hx(g.mls_group_id.as_slice()), m.id.to_hex()), m);
        }
    }
    out
}

/// the point lookup agrees with the listing, group by group: an id stored in one group is found in that group only
/// ("in this or any other group"; seeded change C04-9: a lookup that falls back to a cache that is not keyed by group)
fn cross_group_lookups(c: &Client, listed: &BTreeMap<(String, String), Message>) -> Vec<String> {
    let mut bad = Vec::new();
    let ids: std::collections::BTreeSet<String> = listed.keys().map(|k| k.1.clone()).collect();
    for g in c.groups() {
        let gh = hx(g.mls_group_id.as_slice());
        for id in &ids {
            let Ok(eid) = EventId::from_hex(id) else { continue };
            let got = with_mdk!(c, m => m.get_message(&g.mls_group_id, &eid)).ok().flatten();
            match (got, listed.get(&(gh.clone(), id.clone()))) {
                (Some(_), None) => bad.push("lookup-finds-a-message-under-a-group-that-does-not-list-it".to_string()),
                (None, Some(_)) => bad.push("lookup-misses-a-message-its-group-lists".to_string()),
                (Some(a), Some(b)) if msg_fields(&a) != msg_fields(b) => bad.push("lookup-differs-from-the-listed-message".to_string()),
                _ => {}
            }
        }
    }
    bad.sort();
    bad.dedup();
    bad
}

fn msg_fields(m: &Message) -> Value {
    json!({"id": m.id.to_hex(), "pubkey": m.pubkey.to_hex(), "kind": m.kind.as_u16(), "created_at": m.created_at.as_secs(), "content": m.content,
        "tags": serde_json::to_value(&m.tags).unwrap_or(Value::Null), "event": serde_json::to_value(&m.event).unwrap_or(Value::Null), "state": m.state.as_str(), "epoch": m.epoch, "wrapper": m.wrapper_event_id.to_hex()})
}

/// the oracle: compare the receiver's stored messages before/after one delivery by `sender`
fn judge(before: &BTreeMap<(String, String), Message>, after: &BTreeMap<(String, String), Message>, sender: &PublicKey, target_group: &str) -> Vec<String> {
    let mut bad = Vec::new();
    let mut new = 0;
    for (k, m) in after {
        // id is the NIP-01 hash of exactly the stored fields, and the embedded event agrees
        let want = EventId::new(&m.pubkey, &m.created_at, &m.kind, &m.tags, &m.content);
        if want != m.id {
            bad.push("stored-id-is-not-hash-of-stored-fields".to_string());
        }
        if m.event.verify_id().is_err() || m.event.id.map(|i| i != m.id).unwrap_or(false) || m.event.pubkey != m.pubkey || m.event.content != m.content || m.event.created_at != m.created_at || m.event.kind != m.kind || m.event.tags != m.tags {
            bad.push("embedded-event-disagrees-with-stored-fields".to_string());
        }
        match before.get(k) {
            None => {
                new += 1;
                if m.pubkey != *sender {
                    bad.push("new-message-attributed-to-non-sender".to_string());
                }
                if k.0 != target_group {
                    bad.push("stored-in-another-group".to_string());
                }
            }
            Some(old) => {
                if msg_fields(old) != msg_fields(m) {
                    if old.pubkey != *sender {
                        bad.push("message-of-another-author-altered".to_string());
                    } else {
                        bad.push("existing-own-message-altered".to_string());
                    }
                }
            }
        }
    }
    for k in before.keys() {
        if !after.contains_key(k) {
            bad.push("existing-message-removed".to_string());
        }
    }
    if new > 1 {
        bad.push("more-than-one-new-message".to_string());
    }
    bad.sort();
    bad.dedup();
    bad
}

fn rumor_json(pubkey: &PublicKey, id: Option<String>, kind: u16, tags: &Tags, created_at: u64, content: &str) -> Vec<u8> {
    let mut v = json!({"pubkey": pubkey.to_hex(), "created_at": created_at, "kind": kind, "tags": tags, "content": content});
    if let Some(i) = id {
        v["id"] = json!(i);
    }
    v.to_string().into_bytes()
}

pub fn run(rep: &mut Report, backend: Bk, thorough: bool) {
    // G1: A (admin), B (victim), M (malicious), X (will be removed), Z. Pool: victim's and M's honest messages, the removal.
    let sc = base(
        "c04",
        &["A", "B", "M", "X", "Z"],
        &["A"],
        &["O"],
        vec![act("B", ActKind::Msg("victim-says".into()), 5), act("M", ActKind::Msg("m-own-honest".into()), 5), act("A", ActKind::Remove("X".into()), 10).then(vec![act("B", ActKind::Msg("victim-later".into()), 20), act("A", ActKind::Add("O".into()), 30)])],
    );
    let w = match build_world(&sc, backend) {
        Ok(w) => w,
        Err(e) => {
            rep.machinery_errors.push(format!("c04 world: {}", e.0));
            return;
        }
    };
    let pk_of = |n: &str| w.pks_by_name.get(n).and_then(|h| PublicKey::from_hex(h).ok());
    let idx = |s: &str| w.pool.iter().position(|p| p.label.contains(s)).unwrap();
    let (v0, m0, rm, v1, add_o) = (idx("B.msg0"), idx("M.msg1"), idx("A.remove2"), idx("n2.B.msg0"), idx("n2.A.add1"));
    let victim_id = w.pool[v0].rumor.as_ref().unwrap().id.unwrap().to_hex();
    let own_id = w.pool[m0].rumor.as_ref().unwrap().id.unwrap().to_hex();
    let now_ts = now();

    // G2: M and Z share a second group, with one message of M in it (the "message in another group")
    let m_cl = &w.initial["M"];
    let z_cl = &w.initial["Z"];
    let kp = z_cl.key_package_event();
    let cfgd = NostrGroupConfigData::new("g2".into(), "second".into(), None, None, None, vec![relay("wss://g2.example")], vec![m_cl.pk()]);
    let g2 = match with_mdk!(m_cl, m => m.create_group(&m_cl.pk(), vec![kp], cfgd)) {
        Ok(r) => r,
        Err(e) => {
            rep.machinery_errors.push(format!("c04 g2: {e:?}"));
            return;
        }
    };
    let g2id = g2.group.mls_group_id.clone();
    let wid = EventId::from_slice(&sha2_32(b"c04-g2-welcome")).unwrap();
    let wl = with_mdk!(z_cl, m => m.process_welcome(&wid, &g2.welcome_rumors[0])).expect("g2 welcome");
    with_mdk!(z_cl, m => m.accept_welcome(&wl)).expect("g2 accept");
    let g2_msg = with_mdk!(m_cl, m => m.create_message(&g2id, rumor(&m_cl.keys, "in-g2", now_ts - 50))).expect("g2 msg");
    let g2_rumor_id = {
        let _ = z_cl.process(&g2_msg);
        all_messages(z_cl).into_iter().find(|(k, _)| k.0 == hx(g2id.as_slice())).map(|(k, _)| k.1).unwrap_or_default()
    };
    let g2_h = nostr_group_id_of(z_cl, &g2id).unwrap();
    let g1 = hx(w.gid.as_slice());

    // receiver base states
    let mut bases: Vec<(&str, Client)> = Vec::new();
    let fresh = z_cl.fork();
    let mut stored = z_cl.fork();
    for i in [v0, m0] {
        stored = step(&w, &stored, Action::Deliver(i)).client;
    }
    bases.push(("victim-message-arrives-afterwards", fresh));
    bases.push(("victim-message-already-stored", stored.fork()));
    let mut later = stored.fork();
    for i in [rm, v1] {
        later = step(&w, &later, Action::Deliver(i)).client;
    }
    // the removed member's leaf is taken over by a newly added member
    let reassigned = step(&w, &later, Action::Deliver(add_o)).client;
    bases.push(("removed-members-leaf-reassigned", reassigned));
    if thorough {
        bases.push(("next-epoch", later));
    }

    // ---- malicious member: full product of rumor fields -------------------------------------
    let senders: Vec<(&str, &Client)> = vec![("member", &w.initial["M"]), ("ex-member-stale-state", &w.initial["X"])];
    let some_tags: Tags = Tags::from_list(vec![nostr::Tag::custom(nostr::TagKind::Custom("x".into()), ["y"])]);
    for (role, sender) in &senders {
        let spk = sender.pk();
        let pubkeys: Vec<(&str, PublicKey)> = vec![("own", spk), ("victim", pk_of("B").unwrap()), ("outsider", pk_of("O").unwrap())];
        let kinds: Vec<u16> = if thorough || *role == "member" { vec![9, 1, 5, 445] } else { vec![9] };
        for (pk_label, pk) in &pubkeys {
            for id_mode in ["absent", "correct", "victims-message", "own-message", "other-group-message", "arbitrary"] {
                for kind in &kinds {
                    for (tag_label, tags) in [("no-tags", Tags::new()), ("tags", some_tags.clone())] {
                        for (ts_label, ts) in [("zero", 0u64), ("now", now_ts - 10), ("future", now_ts + 86400 * 30)] {
                            let content = format!("forged-{pk_label}-{id_mode}");
                            let id = match id_mode {
                                "absent" => None,
                                "correct" => Some(EventId::new(pk, &Timestamp::from_secs(ts), &Kind::from(*kind), &tags, &content).to_hex()),
                                "victims-message" => Some(victim_id.clone()),
                                "own-message" => Some(own_id.clone()),
                                "other-group-message" => Some(g2_rumor_id.clone()),
                                _ => Some(hx(&[0x42u8; 32])),
                            };
                            let payload = rumor_json(pk, id, *kind, &tags, ts, &content);
                            let s = sender.fork();
                            let ev = match app_message(&s, &w.gid, &payload, now_ts - 5) {
                                Ok(e) => e,
                                Err(e) => {
                                    rep.machinery_errors.push(format!("c04 forge: {}", e.0));
                                    return;
                                }
                            };
                            for (base_label, basec) in &bases {
                                let r = basec.fork();
                                let before = all_messages(&r);
                                let res = std::panic::catch_unwind(std::panic::AssertUnwindSafe(|| r.process(&ev)));
                                let kind_s = match &res {
                                    Ok(x) => result_kind(x),
                                    Err(_) => "PANIC".into(),
                                };
                                // the victim's original arrives afterwards in the first base state
                                if *base_label == "victim-message-arrives-afterwards" {
                                    let _ = r.process(&w.pool[v0].event);
                                }
                                let after = all_messages(&r);
                                let mut bad = judge(&before, &after, &spk, &g1);
                                bad.extend(cross_group_lookups(&r, &after));
                                if *base_label == "victim-message-arrives-afterwards" {
                                    // the victim's own message legitimately appears: judge it against its real author
                                    bad.retain(|b| b != "new-message-attributed-to-non-sender" || after.iter().any(|(k, m)| !before.contains_key(k) && m.pubkey != spk && m.pubkey != pk_of("B").unwrap()));
                                    bad.retain(|b| b != "more-than-one-new-message");
                                    // the victim's message must end up exactly as the victim created it
                                    let want = w.pool[v0].rumor.as_ref().unwrap();
                                    match after.get(&(g1.clone(), victim_id.clone())) {
                                        Some(m) if m.pubkey == want.pubkey && m.content == want.content && m.created_at == want.created_at => {}
                                        _ => bad.push("victims-message-not-stored-as-created".into()),
                                    }
                                }
                                if kind_s == "PANIC" {
                                    bad.push("panic".into());
                                }
                                rep.case(&format!("{role}|{pk_label}|{id_mode}|{kind}|{tag_label}|{ts_label}|{base_label}|{kind_s}"));
                                rep.outcome(&format!("{role}:{pk_label}:{id_mode}:{kind_s}"));
                                for b in bad {
                                    rep.finding(
                                        format!("C04|{b}|sender={role}|rumor-pubkey={pk_label}|rumor-id={id_mode}"),
                                        format!("a rumor encrypted by the {role} with pubkey={pk_label}, id={id_mode}, kind={kind}, {tag_label}, created_at={ts_label} delivered to Z in state '{base_label}' -> {kind_s}: {b}"),
                                        json!({"sender": role, "pubkey": pk_label, "id": id_mode, "kind": kind, "tags": tag_label, "created_at": ts_label, "base": base_label, "result": kind_s, "backend": format!("{backend:?}"),
                                            "before": before.values().map(msg_fields).collect::<Vec<_>>(), "after": after.values().map(msg_fields).collect::<Vec<_>>()}),
                                    );
                                }
                            }
                        }
                    }
                }
            }
        }
    }

    // ---- a member first tries to re-bind its leaf to the victim's identity, then writes as the victim -------------
    {
        let victim = pk_of("B").unwrap();
        for (label, content) in [("update-path-with-victims-identity-same-signature-key", CommitContent::PathWithIdentity("B".into()))] {
            let s = w.initial["M"].fork();
            let Ok(swap) = raw_commit(&s, &w.gid, &content, &pk_of, None, now_ts - 6) else {
                rep.outcome(&format!("identity-swap-not-buildable:{label}"));
                continue;
            };
            // the sender goes on from the state its own commit leads to
            let merged = with_mdk!(s, m => { m.load_mls_group(&w.gid).ok().flatten().map(|mut g| g.merge_pending_commit(&m.provider).is_ok()).unwrap_or(false) });
            let payload = rumor_json(&victim, None, 9, &Tags::new(), now_ts - 10, "written-by-m-as-the-victim");
            let forged = app_message(&s, &w.gid, &payload, now_ts - 4);
            let r = stored.fork();
            let before = all_messages(&r);
            let r1 = result_kind(&r.process(&swap));
            let r2 = match &forged {
                Ok(e) => result_kind(&r.process(e)),
                Err(_) => "not-buildable".into(),
            };
            let after = all_messages(&r);
            rep.case(&format!("identity-swap|{label}|merged={merged}|{r1}|{r2}"));
            rep.evaluations += 1;
            let mut bad = judge(&before, &after, &w.initial["M"].pk(), &g1);
            if after.values().any(|m| m.content == "written-by-m-as-the-victim" && m.pubkey == victim) {
                bad.push("message-stored-under-the-victims-identity".into());
            }
            bad.sort();
            bad.dedup();
            for b in bad {
                rep.finding(format!("C04|{b}|sender=member|{label}"), format!("member M sends a commit with {label} ({r1}) and then a rumor naming the victim as author ({r2}): {b}"), json!({"commit_result": r1, "message_result": r2}));
            }
        }
    }

    // ---- replays and re-wrappings of captured ciphertexts ----------------------------------------
    let captured: Vec<(&str, &Event)> = vec![("victims", &w.pool[v0].event), ("members-own", &w.pool[m0].event), ("commit", &w.pool[rm].event)];
    for (clabel, ev) in &captured {
        for (hlabel, h, smaller) in [("same-h,smaller-id", None, true), ("same-h,larger-id", None, false), ("other-groups-h,smaller-id", Some(g2_h), true), ("other-groups-h,larger-id", Some(g2_h), false)] {
            let re = match rewrap_ordered(ev, h, smaller) {
                Ok(e) => e,
                Err(e) => {
                    // the captured event's id is at the very edge of the id space: this ordering cannot be built in this run
                    rep.add_count("rewrap_orderings_not_constructible", 1);
                    let _ = e;
                    continue;
                }
            };
            for order in ["original-first", "rewrapped-first"] {
                for (base_label, basec) in &bases {
                    let r = basec.fork();
                    let before = all_messages(&r);
                    let mut results = Vec::new();
                    let seq: Vec<&Event> = if order == "original-first" { vec![*ev, &re] } else { vec![&re, *ev] };
                    for e in seq {
                        let res = std::panic::catch_unwind(std::panic::AssertUnwindSafe(|| r.process(e)));
                        results.push(match &res {
                            Ok(x) => result_kind(x),
                            Err(_) => "PANIC".into(),
                        });
                    }
                    let after = all_messages(&r);
                    let author = if *clabel == "victims" { pk_of("B").unwrap() } else { pk_of("M").unwrap() };
                    let mut bad = judge(&before, &after, &author, &g1);
                    let copies = after.values().filter(|m| m.content == "victim-says").count();
                    if copies > 1 {
                        bad.push("second-copy-of-a-replayed-message".into());
                    }
                    if results.iter().any(|r| r == "PANIC") {
                        bad.push("panic".into());
                    }
                    rep.case(&format!("replay|{clabel}|{hlabel}|{order}|{base_label}|{}", results.join("+")));
                    rep.outcome(&format!("replay:{clabel}:{hlabel}:{}", results.join("+")));
                    for b in bad {
                        rep.finding(
                            format!("C04|{b}|replay={clabel}|{hlabel}|{order}"),
                            format!("captured {clabel} ciphertext re-wrapped ({hlabel}), {order}, delivered to Z in '{base_label}' -> {results:?}: {b}"),
                            json!({"captured": clabel, "h": hlabel, "order": order, "base": base_label, "results": results, "backend": format!("{backend:?}")}),
                        );
                    }
                }
            }
        }
    }

    // ---- outsider: wrappers that do not carry a valid ciphertext --------------------------------
    let g1_h = nostr_group_id_of(z_cl, &w.gid).unwrap();
    for (label, content) in [("random-base64", "QUJDREVGR0g=".to_string()), ("empty", String::new()), ("victims-content-truncated", w.pool[v0].event.content.chars().take(40).collect::<String>())] {
        let ev = wrapper_with_content(&content, g1_h, now_ts - 5).unwrap();
        for (base_label, basec) in &bases {
            let r = basec.fork();
            let before = all_messages(&r);
            let res = std::panic::catch_unwind(std::panic::AssertUnwindSafe(|| r.process(&ev)));
            let kind_s = match &res {
                Ok(x) => result_kind(x),
                Err(_) => "PANIC".into(),
            };
            let after = all_messages(&r);
            let mut bad = judge(&before, &after, &pk_of("O").unwrap(), &g1);
            if after.len() != before.len() {
                bad.push("outsider-event-stored-something".into());
            }
            rep.case(&format!("outsider|{label}|{base_label}|{kind_s}"));
            for b in bad {
                rep.finding(format!("C04|{b}|sender=outsider|{label}"), format!("outsider wrapper ({label}) delivered in '{base_label}' -> {kind_s}: {b}"), json!({"label": label, "base": base_label}));
            }
        }
    }
    rep.states += bases.len() as u64;
    rep.transitions += rep.evaluations;
    rep.sample(json!({"sender": "member", "rumor": {"pubkey": "victim", "id": "victims-message", "kind": 9, "tags": "none", "created_at": "now"}, "receiver": "Z", "base_state": "victim-message-already-stored"}));
}

/// One author posts the same rumor (same id) to two groups the receiver is in; the copy in group 1 was sent on a
/// branch that loses a commit race, so a rollback invalidates it. The copy in group 2 - another group - must stay
/// exactly as it was (for every delivery position of the second copy relative to the race).
pub fn cross_group_rollback(rep: &mut Report, backend: Bk) {
    let sc = base("c04-two-groups", &["A", "B", "M", "Z"], &["A", "B"], &[], vec![act("A", ActKind::Rename("loser".into()), 20).then(vec![act("M", ActKind::Msg("posted-to-both-groups".into()), 5)]), act("B", ActKind::Rename("winner".into()), 10)]);
    let w = match build_world(&sc, backend) {
        Ok(w) => w,
        Err(e) => {
            rep.machinery_errors.push(format!("c04 two-groups world: {}", e.0));
            return;
        }
    };
    let idx = |s: &str| w.pool.iter().position(|p| p.label.contains(s)).unwrap();
    let (loser, winner, dual) = (idx("A.rename0"), idx("B.rename1"), idx("M.msg0"));
    let Some(rum) = w.pool[dual].rumor.clone() else { return };
    let m_cl = &w.initial["M"];
    let z0 = &w.initial["Z"];
    let kp = z0.key_package_event();
    let cfgd = NostrGroupConfigData::new("g2".into(), "second".into(), None, None, None, vec![relay("wss://g2.example")], vec![m_cl.pk()]);
    let Ok(g2) = with_mdk!(m_cl, m => m.create_group(&m_cl.pk(), vec![kp], cfgd)) else {
        rep.machinery_errors.push("c04 two-groups: create_group".into());
        return;
    };
    let g2id = g2.group.mls_group_id.clone();
    let _ = with_mdk!(m_cl, m => m.merge_pending_commit(&g2id));
    let wid = EventId::from_slice(&sha2_32(b"c04-two-groups-welcome")).unwrap();
    let Ok(wl) = with_mdk!(z0, m => m.process_welcome(&wid, &g2.welcome_rumors[0])) else { return };
    let _ = with_mdk!(z0, m => m.accept_welcome(&wl));
    // the same rumor again, for group 2 (id is a function of its fields)
    let mut r2 = rum.clone();
    r2.id = None;
    let Ok(copy2) = with_mdk!(m_cl, m => m.create_message(&g2id, r2)) else {
        rep.machinery_errors.push("c04 two-groups: second copy".into());
        return;
    };
    let g1 = hx(w.gid.as_slice());
    let g2h = hx(g2id.as_slice());
    let id = rum.id.map(|i| i.to_hex()).unwrap_or_default();
    // every position of the group-2 copy in the group-1 history [loser, group-1 copy, winner]
    for pos in 0..=3usize {
        let z = z0.fork();
        let mut results = Vec::new();
        let g1_events = [&w.pool[loser].event, &w.pool[dual].event, &w.pool[winner].event];
        let mut before_last: Option<Message> = None;
        for k in 0..=3usize {
            if k == pos {
                results.push(format!("g2-copy:{}", result_kind(&z.process(&copy2))));
            }
            if k < 3 {
                if k == 2 {
                    before_last = all_messages(&z).get(&(g2h.clone(), id.clone())).cloned();
                }
                results.push(result_kind(&z.process(g1_events[k])));
            }
        }
        let after = all_messages(&z);
        let c2 = after.get(&(g2h.clone(), id.clone()));
        let c1 = after.get(&(g1.clone(), id.clone()));
        rep.case(&format!("two-groups|{backend:?}|{pos}|{}|{:?}|{:?}", results.join("+"), c1.map(|m| m.state.as_str().to_string()), c2.map(|m| m.state.as_str().to_string())));
        rep.evaluations += 1;
        let rolled_back = c1.map(|m| m.state.as_str() == "epoch_invalidated").unwrap_or(false);
        rep.outcome(&format!("two-groups:{}:g1-copy-invalidated={rolled_back}", results.join("+")));
        match c2 {
            None => rep.finding(format!("C04|same-id-message-of-another-group-missing|{backend:?}"), format!("the copy in the second group is not stored (position {pos}: {results:?})"), json!({"position": pos, "results": results})),
            Some(m) => {
                if m.state.as_str() != "processed" || m.content != "posted-to-both-groups" || m.pubkey != m_cl.pk() {
                    rep.finding(
                        format!("C04|same-id-message-of-another-group-altered|{backend:?}|state={}", m.state.as_str()),
                        format!("a commit race in group 1 changed the message with the same id stored for group 2 (position {pos}: {results:?}): {}", msg_fields(m)),
                        json!({"position": pos, "results": results, "backend": format!("{backend:?}"), "before_the_winner": before_last.as_ref().map(msg_fields)}),
                    );
                }
            }
        }
    }
}

/// C08, routing between two groups: group 1 rotates its Nostr group id away from X, group 2 then takes X. Every
/// interleaving of the two groups' event sequences (each in its own causal order), followed by every event once
/// more, delivered to a member of both: after every step both stored records mirror their MLS state, every event
/// takes effect in its own group only, and at the end both groups are complete.
pub fn two_group_routing(rep: &mut Report, backend: Bk) {
    let sc = base("c08-two-groups", &["A", "B", "Z"], &["A", "B"], &[], vec![act("B", ActKind::Msg("g1-before-rotation".into()), 5), act("A", ActKind::RotateId(0xB7), 10).then(vec![act("B", ActKind::Msg("g1-after-rotation".into()), 5)])]);
    let w = match build_world(&sc, backend) {
        Ok(w) => w,
        Err(e) => {
            rep.machinery_errors.push(format!("c08 two-groups world: {}", e.0));
            return;
        }
    };
    let idx = |s: &str| w.pool.iter().position(|p| p.label.contains(s)).unwrap();
    let g1_seq: Vec<Event> = vec![w.pool[idx("n.B.msg0")].event.clone(), w.pool[idx("A.rotate1")].event.clone(), w.pool[idx("n1.B.msg0")].event.clone()];
    let b = &w.initial["B"];
    let z0 = &w.initial["Z"];
    let x_old: [u8; 32] = match nostr_group_id_of(z0, &w.gid) {
        Some(x) => x,
        None => return,
    };
    // group 2: B and Z
    let kp = z0.key_package_event();
    let cfgd = NostrGroupConfigData::new("g2".into(), "second".into(), None, None, None, vec![relay("wss://g2.example")], vec![b.pk()]);
    let Ok(g2) = with_mdk!(b, m => m.create_group(&b.pk(), vec![kp], cfgd)) else {
        rep.machinery_errors.push("c08 two-groups: create_group".into());
        return;
    };
    let g2id = g2.group.mls_group_id.clone();
    let _ = with_mdk!(b, m => m.merge_pending_commit(&g2id));
    let wid = EventId::from_slice(&sha2_32(b"c08-two-groups-welcome")).unwrap();
    let Ok(wl) = with_mdk!(z0, m => m.process_welcome(&wid, &g2.welcome_rumors[0])) else { return };
    let _ = with_mdk!(z0, m => m.accept_welcome(&wl));
    // group 2 takes the id group 1 gives up, then goes on under it
    let f1 = match with_mdk!(b, m => m.update_group_data(&g2id, mdk_core::groups::NostrGroupDataUpdate::new().nostr_group_id(x_old))) {
        Ok(r) => r.evolution_event,
        Err(e) => {
            // B still holds group 1 under X at this point of ITS history: it must follow the rotation first
            let _ = e;
            for e in &g1_seq {
                let _ = b.process(e);
            }
            match with_mdk!(b, m => m.update_group_data(&g2id, mdk_core::groups::NostrGroupDataUpdate::new().nostr_group_id(x_old))) {
                Ok(r) => r.evolution_event,
                Err(e) => {
                    rep.machinery_errors.push(format!("c08 two-groups: group 2 cannot take the released id: {e:?}"));
                    return;
                }
            }
        }
    };
    let _ = with_mdk!(b, m => m.merge_pending_commit(&g2id));
    let Ok(f2) = with_mdk!(b, m => m.create_message(&g2id, rumor(&b.keys, "g2-under-the-reused-id", now() - 10))) else { return };
    let g2_seq: Vec<Event> = vec![f1, f2];
    let labels1 = ["g1:message(old id)", "g1:rotation-commit(old id)", "g1:message(new id)"];
    let labels2 = ["g2:takes-the-old-id-commit", "g2:message(reused id)"];
    // all interleavings
    fn inter(a: usize, b: usize, cur: &mut Vec<(u8, usize)>, out: &mut Vec<Vec<(u8, usize)>>, na: usize, nb: usize) {
        if a == na && b == nb {
            out.push(cur.clone());
            return;
        }
        if a < na {
            cur.push((1, a));
            inter(a + 1, b, cur, out, na, nb);
            cur.pop();
        }
        if b < nb {
            cur.push((2, b));
            inter(a, b + 1, cur, out, na, nb);
            cur.pop();
        }
    }
    let mut orders = Vec::new();
    inter(0, 0, &mut Vec::new(), &mut orders, g1_seq.len(), g2_seq.len());
    let g1h = hx(w.gid.as_slice());
    let g2h = hx(g2id.as_slice());
    for order in &orders {
        let z = z0.fork();
        let mut full: Vec<(u8, usize)> = order.clone();
        // then every event once more, group 1's first
        full.extend((0..g1_seq.len()).map(|i| (1u8, i)));
        full.extend((0..g2_seq.len()).map(|i| (2u8, i)));
        let mut trace: Vec<String> = Vec::new();
        for (g, i) in &full {
            let (ev, label) = if *g == 1 { (&g1_seq[*i], labels1[*i]) } else { (&g2_seq[*i], labels2[*i]) };
            let before = all_messages(&z);
            let res = std::panic::catch_unwind(std::panic::AssertUnwindSafe(|| z.process(ev)));
            let rk = match &res {
                Ok(x) => result_kind(x),
                Err(_) => "PANIC".into(),
            };
            trace.push(format!("{label}->{rk}"));
            rep.evaluations += 1;
            let after = all_messages(&z);
            let mut bad: Vec<String> = Vec::new();
            if rk == "PANIC" {
                bad.push("panic".into());
            }
            // an event changes messages of its own group only
            for (k, m) in &after {
                let other_group = if *g == 1 { &g2h } else { &g1h };
                if &k.0 == other_group && before.get(k).map(|o| msg_fields(o) != msg_fields(m)).unwrap_or(true) {
                    bad.push("event-took-effect-in-the-other-group".into());
                }
            }
            for gid in [&w.gid, &g2id] {
                if let Some(go) = z.group_obs(gid) {
                    if let Some(mm) = crate::props_e1::record_mismatch(&go) {
                        bad.push(format!("record-vs-mls:{mm}"));
                    }
                }
            }
            bad.sort();
            bad.dedup();
            for bd in bad {
                // what first went wrong on this path: the first delivery after which the finding holds
                let cause = trace.iter().find(|t| t.contains("->Unprocessable") || t.contains("->Err")).map(|t| t.as_str()).unwrap_or(label).to_string();
                rep.finding(format!("C08|two-groups|{bd}|after={cause}|{backend:?}"), format!("member of both groups, deliveries [{}]: {bd}", trace.join(" ; ")), json!({"trace": trace, "backend": format!("{backend:?}")}));
            }
        }
        // the end: both groups complete
        let after = all_messages(&z);
        let have = |g: &str, c: &str| after.iter().any(|(k, m)| k.0 == g && m.content == c && m.state.as_str() == "processed");
        let mut missing = Vec::new();
        for c in ["g1-before-rotation", "g1-after-rotation"] {
            if !have(&g1h, c) {
                missing.push(format!("g1:{c}"));
            }
        }
        if !have(&g2h, "g2-under-the-reused-id") {
            missing.push("g2:g2-under-the-reused-id".into());
        }
        rep.case(&format!("two-groups|{backend:?}|{}|missing={}", trace.join("+"), missing.len()));
        rep.states += 1;
        if !missing.is_empty() {
            rep.finding(
                format!("C08|two-groups|messages-not-routed-to-their-group|{}|{backend:?}", missing.join("+")),
                format!("member of both groups, deliveries [{}]: at the end {missing:?} are not stored as processed in their group", trace.join(" ; ")),
                json!({"trace": trace, "backend": format!("{backend:?}")}),
            );
        }
    }
}

/// A message that is saved twice under one id keeps the binding between its id and its stored fields: the author's
/// own copy when its echo arrives, and a rumor its author sent twice (publish retry: two ciphertexts, one rumor id).
/// The rumor's created_at lies well before the time of processing, so the two timestamps of a message differ.
pub fn resave_cases(rep: &mut Report, backend: Bk) {
    let sc = base("c04-resave", &["A", "M", "Z"], &["A"], &[], vec![]);
    let w = match build_world(&sc, backend) {
        Ok(w) => w,
        Err(e) => {
            rep.machinery_errors.push(format!("c04 resave world: {}", e.0));
            return;
        }
    };
    let now_ts = now();
    let g1 = hx(w.gid.as_slice());
    // (a) own echo of a back-dated message
    {
        let z = w.initial["Z"].fork();
        let r = rumor(&z.keys, "own-backdated", now_ts - 5000);
        if let Ok(ev) = with_mdk!(z, m => m.create_message(&w.gid, r)) {
            let before = all_messages(&z);
            let rk = result_kind(&z.process(&ev));
            let after = all_messages(&z);
            rep.case(&format!("resave|own-echo|{backend:?}|{rk}"));
            rep.evaluations += 1;
            let mut bad = judge(&before, &after, &z.pk(), &g1);
            bad.retain(|b| b != "existing-own-message-altered"); // the state goes from created to processed: allowed
            for (k, m) in &after {
                if let Some(o) = before.get(k) {
                    if o.created_at != m.created_at || o.content != m.content || o.pubkey != m.pubkey || o.id != m.id {
                        bad.push("own-message-fields-changed-by-its-echo".into());
                    }
                }
            }
            bad.sort();
            bad.dedup();
            for b in bad {
                rep.finding(format!("C04|{b}|resave=own-echo|{backend:?}"), format!("a member's own back-dated message after its echo ({rk}): {b}"), json!({"backend": format!("{backend:?}"), "after": after.values().map(msg_fields).collect::<Vec<_>>()}));
            }
        }
    }
    // (b) the same rumor sent twice by its author
    {
        let m_cl = w.initial["M"].fork();
        let z = w.initial["Z"].fork();
        let payload = rumor_json(&m_cl.pk(), None, 9, &Tags::new(), now_ts - 5000, "sent-twice");
        if let (Ok(e1), Ok(e2)) = (app_message(&m_cl, &w.gid, &payload, now_ts - 9), app_message(&m_cl, &w.gid, &payload, now_ts - 8)) {
            let before = all_messages(&z);
            let r1 = result_kind(&z.process(&e1));
            let mid = all_messages(&z);
            let r2 = result_kind(&z.process(&e2));
            let after = all_messages(&z);
            rep.case(&format!("resave|sent-twice|{backend:?}|{r1}|{r2}"));
            rep.evaluations += 1;
            let mut bad = judge(&before, &mid, &m_cl.pk(), &g1);
            bad.extend(judge(&mid, &after, &m_cl.pk(), &g1));
            // the second ciphertext may refresh bookkeeping (wrapper id, processing time); what the id commits to stays
            bad.retain(|b| b != "existing-own-message-altered");
            for (k, m) in &after {
                if let Some(o) = mid.get(k) {
                    if o.created_at != m.created_at || o.content != m.content || o.pubkey != m.pubkey || o.id != m.id || o.kind != m.kind || o.tags != m.tags {
                        bad.push("message-fields-changed-by-the-second-copy".into());
                    }
                }
            }
            if after.values().filter(|m| m.content == "sent-twice").count() > 1 {
                bad.push("second-copy".into());
            }
            bad.sort();
            bad.dedup();
            for b in bad {
                rep.finding(format!("C04|{b}|resave=rumor-sent-twice|{backend:?}"), format!("one rumor sent twice by its author ({r1}, {r2}): {b}"), json!({"backend": format!("{backend:?}"), "after": after.values().map(msg_fields).collect::<Vec<_>>()}));
            }
        }
    }
}
