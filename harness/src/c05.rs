//! C05: only admins change roster or group data; identities never change.
//! Receiver half: sender role x commit content (built directly with OpenMLS) x receiver x base state.
//! Sender half: proposal queued by somebody else x honest admin operation.

use std::collections::BTreeSet;

use mdk_core::prelude::*;
use nostr::{Event, PublicKey};
use serde_json::{Value, json};

use crate::adversary::*;
use crate::explore::{Action, step};
use crate::families::*;
use crate::lab::*;
use crate::report::Report;
use crate::scenario::*;
use crate::with_mdk;

#[derive(Debug, Clone, PartialEq, Eq)]
struct View {
    epoch: u64,
    members: BTreeSet<String>,
    admins: BTreeSet<String>,
    name: String,
    relays: BTreeSet<String>,
    /// leaf identity per member (signature keys may rotate, identities may not)
    state: String,
    pending_adds: Vec<String>,
    pending_removes: Vec<String>,
    full: String,
}

fn view(c: &Client, gid: &GroupId) -> Option<View> {
    let o = c.group_obs(gid)?;
    let core = o.mls.clone()?;
    let ext: Value = serde_json::from_str(&core.ext).ok()?;
    let set = |v: &Value| -> BTreeSet<String> { v.as_array().map(|a| a.iter().filter_map(|x| x.as_str().map(|s| s.to_string())).collect()).unwrap_or_default() };
    // everything observable except messages' wall clock (none here)
    let mut o2 = o.clone();
    o2.messages.clear();
    Some(View {
        epoch: core.epoch,
        members: core.members.iter().cloned().collect(),
        admins: set(&ext["admins"]),
        name: ext["name"].as_str().unwrap_or("").to_string(),
        relays: set(&ext["relays"]),
        state: o.record_state.clone(),
        pending_adds: o.pending_adds.clone(),
        pending_removes: o.pending_removes.clone(),
        full: serde_json::to_string(&o2).unwrap_or_default(),
    })
}

/// what a commit is allowed to change, as (members added, members removed, name, admins, relays)
#[derive(Debug, Clone, Default, PartialEq, Eq)]
struct Delta {
    added: BTreeSet<String>,
    removed: BTreeSet<String>,
    name: Option<String>,
    admins: Option<BTreeSet<String>>,
    relays: Option<BTreeSet<String>>,
}

fn delta(a: &View, b: &View) -> Delta {
    Delta {
        added: b.members.difference(&a.members).cloned().collect(),
        removed: a.members.difference(&b.members).cloned().collect(),
        name: if a.name != b.name { Some(b.name.clone()) } else { None },
        admins: if a.admins != b.admins { Some(b.admins.clone()) } else { None },
        relays: if a.relays != b.relays { Some(b.relays.clone()) } else { None },
    }
}

pub fn run(rep: &mut Report, backend: Bk, thorough: bool) {
    // A, B admins; M, V plain members; X is removed on the spine; Z plain receiver. D, O outside.
    let sc = base(
        "c05",
        &["A", "B", "M", "V", "X", "Z"],
        &["A", "B"],
        &["D", "O"],
        vec![act("V", ActKind::Leave, 5), act("B", ActKind::Rename("b-pending".into()), 40), act("A", ActKind::Remove("X".into()), 10).then(vec![])],
    );
    let w = match build_world(&sc, backend) {
        Ok(w) => w,
        Err(e) => {
            rep.machinery_errors.push(format!("c05 world: {}", e.0));
            return;
        }
    };
    let pk_hex = |n: &str| w.pks_by_name.get(n).cloned().unwrap_or_default();
    let pk_of = |n: &str| w.pks_by_name.get(n).and_then(|h| PublicKey::from_hex(h).ok());
    let idx = |s: &str| w.pool.iter().position(|p| p.label.contains(s)).unwrap();
    let (leave, b_rename, rm_x) = (idx("V.leave0"), idx("B.rename1"), idx("A.remove2"));
    let now_ts = now();
    let d_kp: Event = w.initial["D"].key_package_event();
    let gid = w.gid.clone();
    // pristine clients at the root epoch: the initial clients of members that did not act
    // (A, B, V acted: take their reference clients of the root node before acting is not available, so
    //  rebuild "idle" versions by dropping the local effects where needed)
    let root = &w.nodes[&vec![]];
    let idle = |n: &str| -> Client {
        let c = root.clients[n].fork();
        let pending = c.group_obs(&gid).map(|o| o.pending_commit).unwrap_or(false);
        if pending {
            let _ = with_mdk!(c, m => m.clear_pending_commit(&gid));
        }
        c
    };

    // ------------------------------------------------------------------------------------------
    // receiver half
    // ------------------------------------------------------------------------------------------
    let contents: Vec<CommitContent> = vec![
        CommitContent::Empty,
        CommitContent::PathOnlySelfUpdate,
        CommitContent::Add,
        CommitContent::Remove("Z2".into()), // placeholder replaced below
        CommitContent::Rename("renamed".into()),
        CommitContent::Admins(vec!["A".into(), "M".into()]),
        CommitContent::Relay("wss://evil.example".into()),
        CommitContent::PathWithIdentity("V".into()),
        CommitContent::PathWithIdentity("O".into()),
        CommitContent::RenameWithIdentity("V".into()),
        CommitContent::PendingByRef,
        CommitContent::Mixed,
    ];
    let contents: Vec<CommitContent> = contents.into_iter().map(|c| if c == CommitContent::Remove("Z2".into()) { CommitContent::Remove("V".into()) } else { c }).collect();
    // senders at the root epoch; the removed member acts from its stale state after the removal was applied by the receivers
    let sender_roles: Vec<(&str, &str)> = vec![("admin", "A"), ("non-admin", "M"), ("removed-member-stale-state", "X")];
    // receivers and base states
    let receivers: Vec<(&str, &str)> = vec![("non-admin", "Z"), ("admin", "B")];
    for (srole, sname) in &sender_roles {
        for content in &contents {
            // sender-side base: does the sender have a foreign proposal queued (for by-reference commits)
            for queued in [false, true] {
                if queued && !matches!(content, CommitContent::PendingByRef | CommitContent::PathOnlySelfUpdate | CommitContent::Rename(_)) && !thorough {
                    continue;
                }
                let s = idle(sname);
                if queued {
                    // everybody (sender and receivers) has seen V's leave proposal; an admin sender drops the auto-commit it triggers
                    let _ = s.process(&w.pool[leave].event);
                    if s.group_obs(&gid).map(|o| o.pending_commit).unwrap_or(false) {
                        let _ = with_mdk!(s, m => m.clear_pending_commit(&gid));
                    }
                }
                let ev = match raw_commit(&s, &gid, content, &pk_of, Some(&d_kp), now_ts - 5) {
                    Ok(e) => e,
                    Err(e) => {
                        // some contents cannot be built by this sender at all (OpenMLS refuses locally): recorded, not judged
                        rep.outcome(&format!("not-buildable:{srole}:{content:?}:{}", e.0.split(':').next().unwrap_or("")));
                        continue;
                    }
                };
                for (rrole, rname) in &receivers {
                    let mut bases: Vec<(&str, Client)> = Vec::new();
                    let mut r0 = idle(rname);
                    if queued {
                        let _ = r0.process(&w.pool[leave].event);
                        if r0.group_obs(&gid).map(|o| o.pending_commit).unwrap_or(false) {
                            let _ = with_mdk!(r0, m => m.clear_pending_commit(&gid));
                        }
                    }
                    if *srole == "removed-member-stale-state" {
                        // the receivers have already applied X's removal
                        r0 = step(&w, &r0, Action::Deliver(rm_x)).client;
                    }
                    bases.push(("idle", r0.fork()));
                    if *rname == "B" && *srole != "removed-member-stale-state" && !queued {
                        // receiver holds an own pending commit
                        bases.push(("own-pending-commit", root.clients["B"].fork()));
                    }
                    for (blabel, bc) in &bases {
                        let r = bc.fork();
                        let Some(before) = view(&r, &gid) else { continue };
                        let res = std::panic::catch_unwind(std::panic::AssertUnwindSafe(|| r.process(&ev)));
                        let rk = match &res {
                            Ok(x) => result_kind(x),
                            Err(_) => "PANIC".into(),
                        };
                        let Some(after) = view(&r, &gid) else { continue };
                        let accepted = rk == "Commit" && after.epoch > before.epoch;
                        // expected verdict from the scenario alone
                        let sender_is_admin = before.admins.contains(&pk_hex(sname)) && before.members.contains(&pk_hex(sname));
                        let sender_is_member = before.members.contains(&pk_hex(sname));
                        // OpenMLS always adds an update path to a commit without proposals, so an "empty" commit and a
                        // by-reference commit over an empty queue are path-only self-updates as well
                        let pure_self_update = matches!(content, CommitContent::PathOnlySelfUpdate | CommitContent::Empty) || (matches!(content, CommitContent::PendingByRef) && !queued);
                        let identity_change = matches!(content, CommitContent::PathWithIdentity(_) | CommitContent::RenameWithIdentity(_));
                        let must_refuse = !sender_is_member || identity_change || (!sender_is_admin && !pure_self_update);
                        let must_accept = sender_is_member && !identity_change && (sender_is_admin || pure_self_update) && *blabel == "idle";
                        let case = format!("recv|{srole}|{content:?}|queued={queued}|{rrole}|{blabel}");
                        rep.case(&format!("{case}|{rk}"));
                        rep.outcome(&format!("recv:{srole}:{}:{}", if accepted { "accepted" } else { "refused" }, rk));
                        let mut bad: Vec<String> = Vec::new();
                        if rk == "PANIC" {
                            bad.push("panic".into());
                        }
                        if accepted && must_refuse {
                            bad.push("unauthorised-commit-accepted".into());
                        }
                        if !accepted && must_accept {
                            bad.push("authorised-commit-refused".into());
                        }
                        if !accepted {
                            // a rejected commit leaves the group exactly as it was
                            if before.full != after.full {
                                bad.push("refused-commit-changed-state".into());
                            }
                        } else {
                            // the delta is exactly what the commit names
                            let d = delta(&before, &after);
                            let mut want = Delta::default();
                            match content {
                                CommitContent::Add => {
                                    want.added.insert(pk_hex("D"));
                                }
                                CommitContent::Remove(x) => {
                                    want.removed.insert(pk_hex(x));
                                }
                                CommitContent::Rename(n) => want.name = Some(n.clone()),
                                CommitContent::Admins(ns) => want.admins = Some(ns.iter().map(|n| pk_hex(n)).collect()),
                                CommitContent::Relay(u) => want.relays = Some([relay(u).to_string()].into_iter().collect()),
                                CommitContent::Mixed => {
                                    want.added.insert(pk_hex("D"));
                                    want.name = Some("mixed".into());
                                }
                                CommitContent::PendingByRef if queued => {
                                    want.removed.insert(pk_hex("V"));
                                }
                                _ => {}
                            }
                            if d != want {
                                bad.push(format!("accepted-commit-changed-more-than-it-names"));
                            }
                        }
                        for b in bad {
                            rep.finding(
                                format!("C05|{b}|sender={srole}|content={content:?}|queued={queued}|receiver={rrole}|base={blabel}"),
                                format!("{srole} {sname} sends a commit {content:?} (foreign leave proposal queued: {queued}); receiver {rname} ({rrole}, {blabel}) answers {rk}: {b}"),
                                json!({"case": case, "result": rk, "before": {"epoch": before.epoch, "members": before.members, "admins": before.admins, "name": before.name}, "after": {"epoch": after.epoch, "members": after.members, "admins": after.admins, "name": after.name}, "backend": format!("{backend:?}")}),
                            );
                        }
                    }
                }
            }
        }
    }

    // an admin's commit whose group-data extension is raw bytes: hostile bytes (a refusal leaves the group as it was,
    // whatever state the receiver is in), and the same fields under another format version number (the version is
    // group data too: an honest admin operation afterwards changes exactly the field it names)
    {
        let full_of = |c: &Client| -> Option<(u64, String)> {
            let mut o = c.group_obs(&gid)?;
            o.messages.clear();
            Some((o.mls.as_ref().map(|m| m.epoch).unwrap_or(0), serde_json::to_string(&o).unwrap_or_default()))
        };
        let a = idle("A");
        let base_ext = with_mdk!(a, m => m.load_mls_group(&gid)).ok().flatten().and_then(|g| mdk_core::extension::NostrGroupDataExtension::from_group(&g).ok());
        if let Some(base_ext) = base_ext {
            let mut menu: Vec<(String, Vec<u8>)> = crate::shapes::hostile_group_data(&base_ext, if thorough { 3 } else { 40 });
            if !thorough {
                menu.retain(|(l, _)| l.starts_with("truncated") || ["trailing-byte", "image_key-5-bytes", "image_nonce-13-bytes", "version-0", "name-invalid-utf8", "relay-not-a-url"].contains(&l.as_str()));
            }
            for v in [1u16, 3, 7] {
                let mut r = crate::shapes::RawExt::of(&base_ext);
                r.version = v;
                menu.push((format!("same-fields-version-{v}"), r.encode()));
            }
            for (label, bytes) in menu {
                let Ok(ev) = raw_commit(&a.fork(), &gid, &CommitContent::RawGroupData(bytes), &pk_of, None, now_ts - 5) else {
                    rep.outcome(&format!("not-buildable:admin:raw-group-data:{label}"));
                    continue;
                };
                for (rrole, rname) in &receivers {
                    let mut bases: Vec<(&str, Client)> = vec![("idle", idle(rname))];
                    if *rname == "B" {
                        bases.push(("own-pending-commit", root.clients["B"].fork()));
                    }
                    let mut queued_base = idle(rname);
                    let _ = queued_base.process(&w.pool[leave].event);
                    if queued_base.group_obs(&gid).map(|o| o.pending_commit).unwrap_or(false) {
                        let _ = with_mdk!(queued_base, m => m.clear_pending_commit(&gid));
                    }
                    bases.push(("foreign-proposal-queued", queued_base));
                    for (blabel, bc) in &bases {
                        let r = bc.fork();
                        let Some((e0, before)) = full_of(&r) else { continue };
                        let res = std::panic::catch_unwind(std::panic::AssertUnwindSafe(|| r.process(&ev)));
                        let rk = match &res {
                            Ok(x) => result_kind(x),
                            Err(_) => "PANIC".into(),
                        };
                        let after = std::panic::catch_unwind(std::panic::AssertUnwindSafe(|| full_of(&r))).ok().flatten();
                        let kind = if label.starts_with("truncated") { "truncated".to_string() } else { label.clone() };
                        rep.case(&format!("raw-group-data|{kind}|{rrole}|{blabel}|{rk}"));
                        let accepted = rk == "Commit" && after.as_ref().map(|(e, _)| *e > e0).unwrap_or(false);
                        if rk == "PANIC" || after.is_none() {
                            rep.finding(format!("C05|admin-raw-group-data|{kind}|receiver={rrole}|base={blabel}|panic-or-unreadable-state"), format!("admin A's commit with group data {label}: receiver {rname} ({blabel}) answers {rk}; the state cannot be read afterwards or the call panicked"), json!({"mutation": label, "result": rk, "backend": format!("{backend:?}")}));
                            continue;
                        }
                        let (_, after) = after.unwrap();
                        if !accepted && before != after {
                            rep.finding(format!("C05|refused-commit-changed-state|sender=admin|content=raw-group-data:{kind}|receiver={rrole}|base={blabel}"), format!("admin A's commit with group data {label}: receiver {rname} ({blabel}) answers {rk} but its group changed"), json!({"mutation": label, "result": rk, "before": before, "after": after, "backend": format!("{backend:?}")}));
                            continue;
                        }
                        if accepted && *rname == "B" && *blabel == "idle" {
                            // B, an admin, renames the group it now holds: nothing but the name changes
                            let ext_of = |c: &Client| -> Option<Value> { c.group_obs(&gid).and_then(|o| o.mls).and_then(|m| serde_json::from_str::<Value>(&m.ext).ok()) };
                            let Some(e_before) = ext_of(&r) else { continue };
                            if with_mdk!(r, m => m.update_group_data(&gid, NostrGroupDataUpdate::new().name("renamed-afterwards"))).is_err() {
                                rep.outcome(&format!("raw-group-data:{kind}:rename-afterwards-refused"));
                                continue;
                            }
                            let _ = with_mdk!(r, m => m.merge_pending_commit(&gid));
                            let Some(e_after) = ext_of(&r) else { continue };
                            let changed: Vec<String> = e_before.as_object().map(|o| o.keys().filter(|k| e_before[k.as_str()] != e_after[k.as_str()]).cloned().collect()).unwrap_or_default();
                            rep.case(&format!("raw-group-data|{kind}|rename-afterwards|changed={changed:?}"));
                            if changed != vec!["name".to_string()] {
                                rep.finding(format!("C05|admin-operation-changed-more-than-it-names|update_group_data(name)|group-data={kind}|changed={}", changed.join("+")), format!("group data {label} in force; admin B renames the group with update_group_data: fields {changed:?} changed"), json!({"mutation": label, "before": e_before, "after": e_after, "backend": format!("{backend:?}")}));
                            }
                        }
                    }
                }
            }
        } else {
            rep.machinery_errors.push("c05: cannot read the group-data extension of the sender".into());
        }
    }

    // the member a Remove commit names is a receiver too: it leaves the group iff the author is an admin
    for (srole, sname) in &sender_roles {
        if *srole == "removed-member-stale-state" {
            continue;
        }
        let s = idle(sname);
        let content = CommitContent::Remove("V".into());
        let Ok(ev) = raw_commit(&s, &gid, &content, &pk_of, Some(&d_kp), now_ts - 5) else {
            rep.outcome(&format!("not-buildable:{srole}:remove-target"));
            continue;
        };
        let r = idle("V");
        let before = r.group_obs(&gid).map(|o| o.record_state.clone()).unwrap_or_default();
        let before_full = r.group_obs(&gid).map(|mut o| { o.messages.clear(); serde_json::to_string(&o).unwrap_or_default() });
        let res = std::panic::catch_unwind(std::panic::AssertUnwindSafe(|| r.process(&ev)));
        let rk = match &res {
            Ok(x) => result_kind(x),
            Err(_) => "PANIC".into(),
        };
        let after = r.group_obs(&gid).map(|o| o.record_state.clone()).unwrap_or_default();
        let after_full = r.group_obs(&gid).map(|mut o| { o.messages.clear(); serde_json::to_string(&o).unwrap_or_default() });
        let left = before == "active" && after != "active";
        rep.case(&format!("recv-target|{srole}|{rk}|{after}"));
        rep.outcome(&format!("recv-target:{srole}:{}", if left { "left" } else { "stayed" }));
        let is_admin = *srole == "admin";
        let mut bad = Vec::new();
        if rk == "PANIC" {
            bad.push("panic");
        }
        if left && !is_admin {
            bad.push("unauthorised-commit-accepted");
        }
        if !left && is_admin {
            bad.push("authorised-commit-refused");
        }
        if !left && before_full != after_full {
            bad.push("refused-commit-changed-state");
        }
        for b in bad {
            rep.finding(
                format!("C05|{b}|sender={srole}|content=Remove(receiver)|receiver=target-of-the-removal"),
                format!("{srole} {sname} sends a Remove commit naming V; V itself answers {rk} and its group is {after}: {b}"),
                json!({"result": rk, "before": before, "after": after}),
            );
        }
    }

    // stand-alone proposals never take effect by themselves
    let props: Vec<(&str, &str, ProposalContent)> = vec![
        ("non-admin", "M", ProposalContent::Add),
        ("non-admin", "M", ProposalContent::Remove("V".into())),
        ("admin", "B", ProposalContent::Remove("V".into())),
        ("non-admin", "M", ProposalContent::Update),
        ("non-admin", "M", ProposalContent::UpdateWithIdentity("V".into())),
        ("non-admin", "M", ProposalContent::Rename("by-proposal".into())),
        ("non-admin", "V", ProposalContent::SelfRemove),
    ];
    let mut built_props: Vec<(String, String, ProposalContent, Event)> = Vec::new();
    for (prole, pname, pc) in &props {
        let s = idle(pname);
        match raw_proposal(&s, &gid, pc, &pk_of, Some(&d_kp), now_ts - 6) {
            Ok(ev) => built_props.push((prole.to_string(), pname.to_string(), pc.clone(), ev)),
            Err(e) => rep.outcome(&format!("proposal-not-buildable:{pc:?}:{}", e.0.split(':').next().unwrap_or(""))),
        }
    }
    for (prole, pname, pc, ev) in &built_props {
        for (rrole, rname) in &receivers {
            let r = idle(rname);
            let Some(before) = view(&r, &gid) else { continue };
            let res = std::panic::catch_unwind(std::panic::AssertUnwindSafe(|| r.process(ev)));
            let rk = match &res {
                Ok(x) => result_kind(x),
                Err(_) => "PANIC".into(),
            };
            let Some(after) = view(&r, &gid) else { continue };
            rep.case(&format!("prop|{prole}|{pc:?}|{rrole}|{rk}"));
            rep.outcome(&format!("prop:{pc:?}:{rk}"));
            let changed = before.epoch != after.epoch || before.members != after.members || before.admins != after.admins || before.name != after.name || before.relays != after.relays;
            if changed || rk == "PANIC" {
                rep.finding(format!("C05|proposal-took-effect-by-itself|{prole}|{pc:?}|receiver={rrole}"), format!("a stand-alone proposal {pc:?} from {pname} changed the group at {rname}: {rk}"), json!({"result": rk}));
            }
            // the only proposal a receiver may act on by itself is a member's own request to leave (an admin commits it)
            if !matches!(pc, ProposalContent::SelfRemove) && (rk == "Proposal" || r.group_obs(&gid).map(|o| o.pending_commit).unwrap_or(false)) {
                rep.finding(format!("C05|proposal-auto-committed|{prole}|{pc:?}|receiver={rrole}"), format!("{rname} ({rrole}) answered {rk} to a stand-alone proposal {pc:?} from {pname} and holds a commit for it"), json!({"result": rk}));
            }
            let refused = rk.starts_with("Err") || rk == "Unprocessable" || rk == "IgnoredProposal";
            if refused && before.full != after.full {
                rep.finding(format!("C05|refused-proposal-changed-state|{prole}|{pc:?}|receiver={rrole}"), format!("proposal {pc:?} from {pname} was refused by {rname} ({rk}) but changed its state"), json!({"result": rk}));
            }
        }
    }

    // ------------------------------------------------------------------------------------------
    // sender half: an honest admin's operation with somebody else's proposal in its queue
    // ------------------------------------------------------------------------------------------
    let ops = ["add_members", "remove_members", "rename", "self_update"];
    for (prole, pname, pc, pev) in &built_props {
        for op in ops {
            let a = idle("A");
            let pr = a.process(pev);
            let prk = result_kind(&pr);
            // the only automatic case: the admin auto-commits a member's own leave
            let is_leave = matches!(pc, ProposalContent::SelfRemove);
            if is_leave {
                // A now holds the auto-commit; merge it and check it carries out the leave and nothing else
                let Some(before) = view(&idle("A"), &gid) else { continue };
                let _ = with_mdk!(a, m => m.merge_pending_commit(&gid));
                let Some(after) = view(&a, &gid) else { continue };
                let d = delta(&before, &after);
                let mut want = Delta::default();
                want.removed.insert(pk_hex(pname));
                rep.case(&format!("send|leave-autocommit|{prk}"));
                if d != want {
                    rep.finding("C05|leave-autocommit-changed-more-than-the-leave".into(), format!("the admin's auto-commit of {pname}'s leave changed {d:?}"), json!({"delta": format!("{d:?}")}));
                }
                break;
            }
            let Some(before) = view(&a, &gid) else { continue };
            let r = match op {
                "add_members" => with_mdk!(a, m => m.add_members(&gid, std::slice::from_ref(&d_kp))).map(|x| x.evolution_event),
                "remove_members" => with_mdk!(a, m => m.remove_members(&gid, &[pk_of("X").unwrap()])).map(|x| x.evolution_event),
                "rename" => with_mdk!(a, m => m.update_group_data(&gid, NostrGroupDataUpdate::new().name("honest-rename"))).map(|x| x.evolution_event),
                _ => with_mdk!(a, m => m.self_update(&gid)).map(|x| x.evolution_event),
            };
            let commit_ev = match r {
                Ok(e) => e,
                Err(e) => {
                    rep.outcome(&format!("send:{op}:after:{pc:?}:Err({})", err_variant(&e)));
                    continue;
                }
            };
            let _ = with_mdk!(a, m => m.merge_pending_commit(&gid));
            let Some(after) = view(&a, &gid) else { continue };
            let d = delta(&before, &after);
            let mut want = Delta::default();
            match op {
                "add_members" => {
                    want.added.insert(pk_hex("D"));
                }
                "remove_members" => {
                    want.removed.insert(pk_hex("X"));
                }
                "rename" => want.name = Some("honest-rename".into()),
                _ => {}
            }
            rep.case(&format!("send|{op}|queued={pc:?} by {prole}|{prk}"));
            rep.outcome(&format!("send:{op}:queued-{pc:?}:{}", if d == want { "exact" } else { "more" }));
            if d != want {
                rep.finding(
                    format!("C05|admin-operation-carried-out-foreign-proposal|op={op}|queued={pc:?}|by={prole}"),
                    format!("admin A had a {pc:?} proposal from {prole} {pname} queued ({prk}); its own {op} then changed {d:?} instead of {want:?}"),
                    json!({"op": op, "queued": format!("{pc:?}"), "by": prole, "delta": format!("{d:?}"), "want": format!("{want:?}"), "backend": format!("{backend:?}")}),
                );
            }
            // and what the other members end up with after processing proposal + commit
            for (rrole, rname) in &receivers {
                let r = idle(rname);
                let _ = r.process(pev);
                if r.group_obs(&gid).map(|o| o.pending_commit).unwrap_or(false) {
                    let _ = with_mdk!(r, m => m.clear_pending_commit(&gid));
                }
                let Some(rb) = view(&r, &gid) else { continue };
                let rr = r.process(&commit_ev);
                let Some(ra) = view(&r, &gid) else { continue };
                let rd = delta(&rb, &ra);
                rep.case(&format!("send-recv|{op}|{pc:?}|{rrole}|{}", result_kind(&rr)));
                if result_kind(&rr) == "Commit" && rd != want {
                    rep.finding(
                        format!("C05|admin-operation-carried-out-foreign-proposal|op={op}|queued={pc:?}|by={prole}"),
                        format!("receiver {rname}: A's {op} commit changed {rd:?} instead of {want:?} (queued {pc:?} from {pname})"),
                        json!({"op": op, "queued": format!("{pc:?}"), "delta": format!("{rd:?}")}),
                    );
                }
            }
        }
    }
    // an honest admin's operations on an empty queue: each changes exactly what it names, also when it takes something away
    {
        let admin_sets: Vec<(&str, Vec<&str>)> = vec![("demote-the-other-admin", vec!["A"]), ("promote-a-member", vec!["A", "B", "M"]), ("swap", vec!["A", "M"])];
        for (label, names) in &admin_sets {
            let a = idle("A");
            let Some(before) = view(&a, &gid) else { continue };
            let pks: Vec<PublicKey> = names.iter().filter_map(|n| pk_of(n)).collect();
            let r = with_mdk!(a, m => m.update_group_data(&gid, NostrGroupDataUpdate::new().admins(pks.clone())));
            let Ok(r) = r else {
                rep.outcome(&format!("send:set-admins:{label}:refused"));
                continue;
            };
            let _ = with_mdk!(a, m => m.merge_pending_commit(&gid));
            let Some(after) = view(&a, &gid) else { continue };
            let mut want = Delta::default();
            want.admins = Some(names.iter().map(|n| pk_hex(n)).collect());
            let d = delta(&before, &after);
            rep.case(&format!("send|set-admins|{label}|{}", d == want));
            if d != want {
                rep.finding(format!("C05|admin-operation-changed-other-than-it-names|update_group_data(admins)|{label}"), format!("admin A sets the admins to {names:?}: the group changed {d:?} instead of {want:?}"), json!({"delta": format!("{d:?}"), "want": format!("{want:?}"), "backend": format!("{backend:?}")}));
            }
            for (rrole, rname) in &receivers {
                let rc = idle(rname);
                let Some(rb) = view(&rc, &gid) else { continue };
                let rr = rc.process(&r.evolution_event);
                let Some(ra) = view(&rc, &gid) else { continue };
                rep.case(&format!("send-recv|set-admins|{label}|{rrole}|{}", result_kind(&rr)));
                if result_kind(&rr) == "Commit" && delta(&rb, &ra) != want {
                    rep.finding(format!("C05|admin-operation-changed-other-than-it-names|update_group_data(admins)|{label}"), format!("receiver {rname}: A's admin update to {names:?} changed {:?}", delta(&rb, &ra)), json!({"backend": format!("{backend:?}")}));
                }
            }
        }
    }
    // group-data fields one at a time, on a group that holds a full image record: the operation changes the field it names in
    // the group data (sender after merging, every receiver after processing) and none of the others (seeded change C05-11: naming
    // a new image hash alone wipes key, nonce and upload key)
    {
        let ext_of = |c: &Client| -> Option<serde_json::Map<String, Value>> {
            let o = c.group_obs(&gid)?;
            serde_json::from_str::<Value>(&o.mls?.ext).ok()?.as_object().cloned()
        };
        let changed = |a: &serde_json::Map<String, Value>, b: &serde_json::Map<String, Value>| -> Vec<String> {
            let mut v: Vec<String> = a.keys().chain(b.keys()).filter(|k| a.get(*k) != b.get(*k)).cloned().collect();
            v.sort();
            v.dedup();
            v
        };
        let full = || NostrGroupDataUpdate::new().image_hash(Some([0x31; 32])).image_key(Some([0x32; 32])).image_nonce(Some([0x33; 12])).image_upload_key(Some([0x34; 32]));
        let ops: Vec<(&str, NostrGroupDataUpdate, Vec<&str>)> = vec![
            ("name", NostrGroupDataUpdate::new().name("renamed-alone"), vec!["name"]),
            ("description", NostrGroupDataUpdate::new().description("described-alone"), vec!["description"]),
            ("image_hash", NostrGroupDataUpdate::new().image_hash(Some([0x41; 32])), vec!["image_hash"]),
            ("image_key", NostrGroupDataUpdate::new().image_key(Some([0x42; 32])), vec!["image_key"]),
            ("image_nonce", NostrGroupDataUpdate::new().image_nonce(Some([0x43; 12])), vec!["image_nonce"]),
            ("image_upload_key", NostrGroupDataUpdate::new().image_upload_key(Some([0x44; 32])), vec!["image_upload_key"]),
            ("image_hash-same-value", NostrGroupDataUpdate::new().image_hash(Some([0x31; 32])), vec![]),
        ];
        for (label, upd, want) in ops {
            // sender and receivers first take the full image record (one honest commit), then the single-field update
            let a = idle("A");
            let Ok(r0) = with_mdk!(a, m => m.update_group_data(&gid, full())) else {
                rep.outcome("send:full-image:refused");
                continue;
            };
            let _ = with_mdk!(a, m => m.merge_pending_commit(&gid));
            let Some(before) = ext_of(&a) else { continue };
            let Ok(r1) = with_mdk!(a, m => m.update_group_data(&gid, upd)) else {
                rep.outcome(&format!("send:single-field:{label}:refused"));
                continue;
            };
            let _ = with_mdk!(a, m => m.merge_pending_commit(&gid));
            let Some(after) = ext_of(&a) else { continue };
            let ch = changed(&before, &after);
            rep.case(&format!("send|single-field|{label}|{}", ch.join("+")));
            rep.evaluations += 1;
            if ch != want {
                rep.finding(format!("C05|admin-operation-changed-other-than-it-names|update_group_data({label})|changed={}", ch.join("+")), format!("admin A updates {label} alone on a group with a full image record: the group data changed in [{}] instead of {want:?}", ch.join(", ")), json!({"before": before, "after": after, "backend": format!("{backend:?}")}));
            }
            for (rrole, rname) in &receivers {
                let rc = idle(rname);
                let _ = rc.process(&r0.evolution_event);
                let Some(rb) = ext_of(&rc) else { continue };
                let rr = rc.process(&r1.evolution_event);
                let Some(ra) = ext_of(&rc) else { continue };
                rep.case(&format!("send-recv|single-field|{label}|{rrole}|{}", result_kind(&rr)));
                rep.evaluations += 1;
                let rch = changed(&rb, &ra);
                if result_kind(&rr) == "Commit" && rch != want {
                    rep.finding(format!("C05|admin-operation-changed-other-than-it-names|update_group_data({label})|changed={}", rch.join("+")), format!("receiver {rname}: A's update of {label} alone changed [{}]", rch.join(", ")), json!({"backend": format!("{backend:?}")}));
                }
            }
        }
    }
    let _ = b_rename;
    rep.states += 4;
    rep.transitions += rep.evaluations;
    rep.sample(json!({"sender": "non-admin M", "commit": "Rename built with the OpenMLS commit builder", "receiver": "Z (non-admin), idle", "expected": "refused, state unchanged"}));
    rep.sample(json!({"admin": "A", "queued": "Remove(V) proposed by non-admin M", "operation": "update_group_data(name)", "expected_delta": "name only"}));
}

/// A removal leaves an empty leaf in front of a non-admin, and an admin sits further right in the tree (leaf order =
/// joining order: A admin, X, M, B admin; X is removed). What M commits afterwards is judged by M's leaf, not by
/// whoever is M's-leaf-index-th among the remaining members. Also the identity of an admin is checked in every
/// commit that carries an update path, whatever else the commit contains.
pub fn tree_with_holes(rep: &mut Report, backend: Bk) {
    let sc = base("c05-holes", &["A", "X", "M", "B", "Z"], &["A", "B"], &["D"], vec![act("A", ActKind::Remove("X".into()), 10).then(vec![])]);
    let w = match build_world(&sc, backend) {
        Ok(w) => w,
        Err(e) => {
            rep.machinery_errors.push(format!("c05 holes world: {}", e.0));
            return;
        }
    };
    let pk_of = |n: &str| w.pks_by_name.get(n).and_then(|h| PublicKey::from_hex(h).ok());
    let rm = w.pool.iter().position(|p| p.label.contains("A.remove0")).unwrap();
    let now_ts = now();
    let d_kp: Event = w.initial["D"].key_package_event();
    let gid = w.gid.clone();
    let after_removal = |n: &str| -> Client { step(&w, &w.nodes[&vec![]].clients[n].fork(), Action::Deliver(rm)).client };
    let cases: Vec<(&str, &str, CommitContent, bool)> = vec![
        ("non-admin-behind-the-hole", "M", CommitContent::Rename("by-m".into()), false),
        ("non-admin-behind-the-hole", "M", CommitContent::Admins(vec!["A".into(), "M".into()]), false),
        ("non-admin-behind-the-hole", "M", CommitContent::Add, false),
        ("non-admin-behind-the-hole", "M", CommitContent::PathOnlySelfUpdate, true),
        ("non-admin-last-leaf", "Z", CommitContent::Rename("by-z".into()), false),
        ("admin-behind-the-hole", "B", CommitContent::Rename("by-b".into()), true),
    ];
    for (srole, sname, content, must_accept) in &cases {
        let s = after_removal(sname);
        let Ok(ev) = raw_commit(&s, &gid, content, &pk_of, Some(&d_kp), now_ts - 5) else {
            rep.outcome(&format!("holes-not-buildable:{srole}:{content:?}"));
            continue;
        };
        for rname in ["A", "B", "M", "Z"] {
            if rname == *sname {
                continue;
            }
            let r = after_removal(rname);
            let Some(before) = view(&r, &gid) else { continue };
            let rk = result_kind(&r.process(&ev));
            let Some(after) = view(&r, &gid) else { continue };
            let accepted = rk == "Commit" && after.epoch > before.epoch;
            rep.case(&format!("holes|{backend:?}|{srole}|{content:?}|{rname}|{rk}"));
            rep.evaluations += 1;
            if accepted && !must_accept {
                rep.finding(format!("C05|unauthorised-commit-accepted|sender={srole}|content={content:?}|tree-with-an-empty-leaf"), format!("after X (leaf 1) was removed, {sname} sends {content:?}; receiver {rname} answers {rk}"), json!({"receiver": rname, "backend": format!("{backend:?}")}));
            }
            if !accepted && *must_accept {
                rep.finding(format!("C05|authorised-commit-refused|sender={srole}|content={content:?}|tree-with-an-empty-leaf"), format!("after X (leaf 1) was removed, {sname} sends {content:?}; receiver {rname} answers {rk}"), json!({"receiver": rname, "backend": format!("{backend:?}")}));
            }
            if !accepted && before.full != after.full {
                rep.finding(format!("C05|refused-commit-changed-state|sender={srole}|content={content:?}|tree-with-an-empty-leaf"), format!("{sname} sends {content:?}; receiver {rname} refuses ({rk}) but its state changed"), json!({"receiver": rname}));
            }
        }
    }
}
