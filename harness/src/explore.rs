//! Phase 2: per-member reachable-state graph over the real client (explicit-state BFS).

use std::collections::{BTreeMap, HashMap, VecDeque};

use mdk_storage_traits::GroupId;
use serde::{Deserialize, Serialize};
use serde_json::Value;

use crate::lab::*;
use crate::logcap;
use crate::scenario::*;
use crate::with_mdk;

#[derive(Debug, Clone, Copy, PartialEq, Eq, Hash, PartialOrd, Ord, Serialize, Deserialize)]
pub enum Regime {
    Causal,
    Unrestricted,
}

#[derive(Debug, Clone, Copy, PartialEq, Eq, Hash, PartialOrd, Ord, Serialize, Deserialize)]
pub enum Action {
    Deliver(usize),
    MergeOwn,
    ClearPending,
    Restart,
    /// process_welcome of the i-th published welcome rumor
    Welcome(usize),
    Accept(usize),
    Decline(usize),
}

impl Action {
    pub fn label(&self, w: &World) -> String {
        match self {
            Action::Deliver(i) => format!("deliver({})", w.pool[*i].label),
            Action::MergeOwn => "merge_own".into(),
            Action::ClearPending => "clear_pending".into(),
            Action::Restart => "restart".into(),
            Action::Welcome(i) => format!("process_welcome(w{i}:{})", w.welcomes[*i].2),
            Action::Accept(i) => format!("accept_welcome(w{i}:{})", w.welcomes[*i].2),
            Action::Decline(i) => format!("decline_welcome(w{i}:{})", w.welcomes[*i].2),
        }
    }
}

pub struct StateRec {
    pub key_hash: u64,
    pub obs_hash: u64,
    /// the explored group as observed in this state
    pub g: Option<GroupObs>,
    /// dedup state per pool event ("" when no record)
    pub dedup: Vec<String>,
    pub snap_queue: Vec<(u64, String, u64)>,
    pub snap_stored: Vec<String>,
    pub depth: usize,
    pub parent: Option<(usize, Action)>,
    pub key_json: Option<String>,
    /// the pending commit (if any) was produced during exploration (an auto-commit nobody published)
    pub auto_pending: bool,
    /// C03 probe: did create_message succeed in this state (only probed for inactive groups)
    pub send_ok: Option<bool>,
    /// number of messages stored in groups other than the explored one
    pub foreign_msgs: usize,
    /// state of the stored welcome for every published invitation ("" = not stored)
    pub welcome_states: Vec<String>,
    /// state of the processed-welcome record per wrapper id ("" = none)
    pub welcome_dedup: Vec<String>,
    /// which of the Nostr group ids the scenario ever uses currently resolve to the explored group (hex, sorted)
    pub routes: Vec<String>,
}

pub struct Edge {
    pub action: Action,
    pub result: String,
    pub target: usize,
    /// sensitive-value hits in logs / errors / results on this transition (C14)
    pub leaks: Vec<String>,
    /// the message returned by an ApplicationMessage result (for C02 per-edge oracle)
    pub msg: Option<Value>,
    pub panicked: bool,
}

pub struct Graph {
    pub member: String,
    pub regime: Regime,
    pub states: Vec<StateRec>,
    pub edges: Vec<Vec<Edge>>,
    pub capped: bool,
    pub transitions: usize,
    pub log_records: usize,
    pub log_templates: std::collections::BTreeSet<u64>,
    pub prejoin: bool,
    /// start a scenario member that is removed and invited again from the state in which it published its new key package
    pub rejoin: bool,
}

pub struct ExploreOpts {
    pub regime: Regime,
    pub max_states: usize,
    pub with_restart: bool,
    pub with_local_ops: bool,
    pub keep_key_json: bool,
    /// restrict deliverable pool events (indices); None = all
    pub pool_filter: Option<Vec<usize>>,
    /// offer process (and with `welcome_consent` accept/decline) of published welcomes
    pub with_welcomes: bool,
    /// 0 = never, 1 = only while the stored welcome is pending, 2 = in every state
    pub welcome_consent: u8,
    /// start joiners from the state before they saw their invitation
    pub prejoin: bool,
    pub rejoin: bool,
}

fn snapshot_state(c: &Client, w: &World, pool_ids: &[nostr::EventId], welcome_ids: &[nostr::EventId], depth: usize, parent: Option<(usize, Action)>, keep: bool) -> StateRec {
    let key = c.key(pool_ids, welcome_ids);
    let key_s = key.to_string();
    let obs_s = key["obs"].to_string();
    let g = c.group_obs(&w.gid);
    let send_ok = match &g {
        Some(go) if go.record_state == "inactive" => {
            let f = c.fork();
            let r = rumor(&f.keys, "probe-after-eviction", now());
            Some(with_mdk!(f, m => m.create_message(&w.gid, r)).is_ok())
        }
        _ => None,
    };
    let foreign_msgs: usize = c.groups().iter().filter(|x| x.mls_group_id != w.gid).map(|x| c.group_obs(&x.mls_group_id).map(|o| o.messages.len()).unwrap_or(0)).sum();
    let welcome_states: Vec<String> = w.welcomes.iter().map(|(_, r, _)| r.id.and_then(|id| with_mdk!(c, m => m.get_welcome(&id)).ok().flatten()).map(|x| x.state.as_str().to_string()).unwrap_or_default()).collect();
    let welcome_dedup: Vec<String> = w.welcomes.iter().map(|(wid, _, _)| with_mdk!(c, m => { use mdk_storage_traits::welcomes::WelcomeStorage; use openmls::prelude::OpenMlsProvider; m.provider.storage().find_processed_welcome_by_event_id(wid) }).ok().flatten().map(|p| p.state.as_str().to_string()).unwrap_or_default()).collect();
    let dedup: Vec<String> = pool_ids.iter().map(|id| c.dedup(id).map(|p| p.state.as_str().to_string()).unwrap_or_default()).collect();
    let snap_queue: Vec<(u64, String, u64)> = with_mdk!(c, m => m.verif_snapshot_queue(&w.gid)).into_iter().map(|e| (e.epoch, e.applied_commit_id.to_hex(), e.applied_commit_ts)).collect();
    let mut snap_stored: Vec<String> = with_mdk!(c, m => { use mdk_storage_traits::MdkStorageProvider; use openmls::prelude::OpenMlsProvider; m.provider.storage().list_group_snapshots(&w.gid) }).unwrap_or_default().into_iter().map(|(n, _)| n).collect();
    snap_stored.sort();
    // routing: every Nostr group id this scenario's group ever carries, asked of the client's store
    let mut ids: std::collections::BTreeSet<String> = w.nodes.values().filter_map(|n| n.record["nostr_group_id"].as_str().map(|x| x.to_string())).collect();
    if let Some(go) = &g {
        if let Some(x) = go.record["nostr_group_id"].as_str() {
            ids.insert(x.to_string());
        }
    }
    let routes: Vec<String> = ids
        .into_iter()
        .filter(|h| {
            let Ok(b) = hex::decode(h) else { return false };
            let Ok(arr): Result<[u8; 32], _> = b.try_into() else { return false };
            with_mdk!(c, m => { use mdk_storage_traits::groups::GroupStorage; use openmls::prelude::OpenMlsProvider; m.provider.storage().find_group_by_nostr_group_id(&arr) }).ok().flatten().map(|gr| gr.mls_group_id == w.gid).unwrap_or(false)
        })
        .collect();
    let key_s = format!("{key_s}|routes={routes:?}");
    StateRec { key_hash: h64(&key_s), obs_hash: h64(&obs_s), g, dedup, snap_queue, snap_stored, depth, parent, key_json: if keep { Some(key_s) } else { None }, auto_pending: false, send_ok, foreign_msgs, welcome_states, welcome_dedup, routes }
}

pub fn member_epoch(s: &StateRec) -> u64 {
    s.g.as_ref().and_then(|g| g.mls.as_ref().map(|m| m.epoch)).unwrap_or(0)
}

/// Which actions are enabled in a state
pub fn enabled(w: &World, s: &StateRec, opts: &ExploreOpts, member: &str) -> Vec<Action> {
    let mut v = Vec::new();
    let ep = member_epoch(s);
    for (i, p) in w.pool.iter().enumerate() {
        if let Some(f) = &opts.pool_filter {
            if !f.contains(&i) {
                continue;
            }
        }
        if opts.regime == Regime::Causal && (p.node.len() as u64) > ep.saturating_sub(w.nodes[&vec![]].core.epoch) {
            continue;
        }
        v.push(Action::Deliver(i));
    }
    if opts.with_local_ops && s.g.as_ref().map(|g| g.pending_commit).unwrap_or(false) {
        // a published commit may be applied right away ("merge immediately after publishing");
        // a commit produced while exploring was never published, so the only valid local step is to drop it
        if s.auto_pending {
            v.push(Action::ClearPending);
        } else {
            v.push(Action::MergeOwn);
        }
    }
    if opts.with_restart {
        v.push(Action::Restart);
    }
    if opts.with_welcomes {
        // every invitation addressed to this client, plus one addressed to somebody else
        let mut foreign_done = false;
        for i in 0..w.welcomes.len() {
            let own = w.welcomes[i].2 == member;
            if !own {
                if foreign_done {
                    continue;
                }
                foreign_done = true;
            }
            v.push(Action::Welcome(i));
            let pending = s.welcome_states.get(i).map(|x| x == "pending").unwrap_or(false);
            if own && (opts.welcome_consent == 2 || (opts.welcome_consent == 1 && pending)) {
                v.push(Action::Accept(i));
                v.push(Action::Decline(i));
            }
        }
    }
    v
}

pub struct StepOut {
    pub client: Client,
    pub result: String,
    pub leaks: Vec<String>,
    pub msg: Option<Value>,
    pub panicked: bool,
    pub log_records: usize,
    pub log_templates: Vec<u64>,
}

/// Apply one action to a fork of `c` (the real code runs here).
pub fn step(w: &World, c: &Client, a: Action) -> StepOut {
    let f = if a == Action::Restart { c.restart() } else { c.fork() };
    step_on(w, f, a)
}

/// Apply one action to this very client (no fork: forking a SQLite client rebuilds the MDK, which prunes by TTL).
pub fn step_on(w: &World, f: Client, a: Action) -> StepOut {
    logcap::begin();
    let mut msg = None;
    let mut panicked = false;
    let result: String = match a {
        Action::Deliver(i) => {
            let ev = w.pool[i].event.clone();
            let r = std::panic::catch_unwind(std::panic::AssertUnwindSafe(|| f.process(&ev)));
            match r {
                Ok(r) => {
                    if let Ok(mdk_core::prelude::MessageProcessingResult::ApplicationMessage(m)) = &r {
                        msg = Some(message_json(m));
                    }
                    logcap::note(format!("{r:?}"));
                    if let Err(e) = &r {
                        logcap::note(format!("{e}"));
                    }
                    result_kind(&r)
                }
                Err(_) => {
                    panicked = true;
                    "PANIC".into()
                }
            }
        }
        Action::MergeOwn => {
            let r = std::panic::catch_unwind(std::panic::AssertUnwindSafe(|| with_mdk!(f, m => m.merge_pending_commit(&w.gid))));
            match r {
                Ok(Ok(())) => "Ok".into(),
                Ok(Err(e)) => {
                    logcap::note(format!("{e:?} {e}"));
                    format!("Err({})", err_variant(&e))
                }
                Err(_) => {
                    panicked = true;
                    "PANIC".into()
                }
            }
        }
        Action::ClearPending => {
            let r = std::panic::catch_unwind(std::panic::AssertUnwindSafe(|| with_mdk!(f, m => m.clear_pending_commit(&w.gid))));
            match r {
                Ok(Ok(())) => "Ok".into(),
                Ok(Err(e)) => {
                    logcap::note(format!("{e:?} {e}"));
                    format!("Err({})", err_variant(&e))
                }
                Err(_) => {
                    panicked = true;
                    "PANIC".into()
                }
            }
        }
        Action::Restart => "Ok".into(),
        Action::Welcome(i) => {
            let (wid, rumor, _) = &w.welcomes[i];
            match std::panic::catch_unwind(std::panic::AssertUnwindSafe(|| with_mdk!(f, m => m.process_welcome(wid, rumor)))) {
                Ok(Ok(_)) => "Welcome".into(),
                Ok(Err(e)) => {
                    logcap::note(format!("{e:?} {e}"));
                    format!("Err({})", err_variant(&e))
                }
                Err(_) => {
                    panicked = true;
                    "PANIC".into()
                }
            }
        }
        Action::Accept(i) | Action::Decline(i) => {
            let (_, rumor, _) = &w.welcomes[i];
            let stored = rumor.id.and_then(|id| with_mdk!(f, m => m.get_welcome(&id)).ok().flatten());
            match stored {
                None => "NoStoredWelcome".into(),
                Some(wl) => {
                    let accept = matches!(a, Action::Accept(_));
                    match std::panic::catch_unwind(std::panic::AssertUnwindSafe(|| with_mdk!(f, m => if accept { m.accept_welcome(&wl) } else { m.decline_welcome(&wl) }))) {
                        Ok(Ok(())) => "Ok".into(),
                        Ok(Err(e)) => {
                            logcap::note(format!("{e:?} {e}"));
                            format!("Err({})", err_variant(&e))
                        }
                        Err(_) => {
                            panicked = true;
                            "PANIC".into()
                        }
                    }
                }
            }
        }
    };
    let recs = logcap::end();
    if std::env::var("VERIF_TRACE_LOGS").is_ok() {
        for r in &recs {
            eprintln!("        log: {}", r.chars().take(300).collect::<String>());
        }
    }
    let leaks = logcap::scan(&recs, &w.secrets);
    let log_templates: Vec<u64> = recs.iter().map(|r| h64(&logcap::template(r))).collect();
    StepOut { client: f, result, leaks, msg, panicked, log_records: recs.len(), log_templates }
}

/// Breadth-first search of everything `member` can reach.
pub fn explore(w: &World, member: &str, opts: &ExploreOpts) -> Graph {
    let pool_ids = w.pool_ids();
    let welcome_ids = w.welcome_ids();
    let init = if opts.prejoin && w.prejoin.contains_key(member) && (opts.rejoin || !w.sc.members.iter().any(|m| m == member)) { w.prejoin[member].fork() } else { w.initial[member].fork() };
    let mut g = Graph { member: member.to_string(), regime: opts.regime, states: vec![], edges: vec![], capped: false, transitions: 0, log_records: 0, log_templates: Default::default(), prejoin: opts.prejoin, rejoin: opts.rejoin };
    let mut index: HashMap<u64, usize> = HashMap::new();
    let mut live: BTreeMap<usize, Client> = BTreeMap::new();
    let s0 = snapshot_state(&init, w, &pool_ids, &welcome_ids, 0, None, opts.keep_key_json);
    index.insert(s0.key_hash, 0);
    g.states.push(s0);
    g.edges.push(vec![]);
    live.insert(0, init);
    let mut q: VecDeque<usize> = VecDeque::new();
    q.push_back(0);
    while let Some(si) = q.pop_front() {
        let c = live.remove(&si).expect("live client");
        let acts = enabled(w, &g.states[si], opts, member);
        let depth = g.states[si].depth;
        for a in acts {
            let out = step(w, &c, a);
            g.transitions += 1;
            g.log_records += out.log_records;
            g.log_templates.extend(out.log_templates.iter().copied());
            let mut rec = snapshot_state(&out.client, w, &pool_ids, &welcome_ids, depth + 1, Some((si, a)), opts.keep_key_json);
            if std::env::var("VERIF_DEBUG2").is_ok() {
                if let Some(go) = &rec.g {
                    eprintln!("explore {member} from {si} via {} -> {} ptr={} msgs={}", a.label(w), out.result, go.record["last_message_id"], go.messages.len());
                }
            }
            let has_pending = rec.g.as_ref().map(|g| g.pending_commit).unwrap_or(false);
            rec.auto_pending = has_pending && (g.states[si].auto_pending || out.result == "Proposal");
            if rec.auto_pending {
                rec.key_hash ^= 0x9e3779b97f4a7c15;
            }
            let target = match index.get(&rec.key_hash) {
                Some(t) => *t,
                None => {
                    let t = g.states.len();
                    if t >= opts.max_states {
                        g.capped = true;
                        // edge to an unexpanded overflow state is not recorded
                        continue;
                    }
                    index.insert(rec.key_hash, t);
                    g.states.push(rec);
                    g.edges.push(vec![]);
                    live.insert(t, out.client);
                    q.push_back(t);
                    t
                }
            };
            g.edges[si].push(Edge { action: a, result: out.result, target, leaks: out.leaks, msg: out.msg, panicked: out.panicked });
        }
    }
    g
}

impl Graph {
    pub fn path_to(&self, mut s: usize) -> Vec<Action> {
        let mut v = Vec::new();
        while let Some((p, a)) = self.states[s].parent {
            v.push(a);
            s = p;
        }
        v.reverse();
        v
    }

    pub fn follow(&self, from: usize, a: Action) -> Option<&Edge> {
        self.edges[from].iter().find(|e| e.action == a)
    }

    pub fn run(&self, acts: &[Action]) -> Option<usize> {
        let mut s = 0;
        for a in acts {
            s = self.follow(s, *a)?.target;
        }
        Some(s)
    }

    /// all deliver edges of the state are self loops
    pub fn quiescent(&self, s: usize) -> bool {
        self.edges[s].iter().filter(|e| matches!(e.action, Action::Deliver(_))).all(|e| e.target == s)
    }

    /// 1-minimal sub-trace (on the explored graph) whose end state still satisfies `pred`
    pub fn minimise(&self, acts: &[Action], pred: &dyn Fn(usize) -> bool) -> Vec<Action> {
        let mut cur: Vec<Action> = acts.to_vec();
        loop {
            let mut changed = false;
            let mut i = 0;
            while i < cur.len() {
                let mut cand = cur.clone();
                cand.remove(i);
                if let Some(end) = self.run(&cand) {
                    if pred(end) {
                        cur = cand;
                        changed = true;
                        continue;
                    }
                }
                i += 1;
            }
            if !changed {
                break;
            }
        }
        cur
    }
}

/// Re-execute a trace from the initial checkpoint on the real code and compare with the recorded
/// key at every step (determinism gate / conformance of the graph with the implementation).
pub fn validate_trace(w: &World, g: &Graph, acts: &[Action]) -> Result<(), String> {
    let pool_ids = w.pool_ids();
    let welcome_ids = w.welcome_ids();
    let mut c = if g.prejoin && w.prejoin.contains_key(&g.member) && (g.rejoin || !w.sc.members.iter().any(|m| *m == g.member)) { w.prejoin[&g.member].fork() } else { w.initial[&g.member].fork() };
    let mut s = 0usize;
    for a in acts {
        let e = g.follow(s, *a).ok_or_else(|| format!("no edge {a:?} in state {s}"))?;
        let out = step(w, &c, *a);
        let mut rec = snapshot_state(&out.client, w, &pool_ids, &welcome_ids, 0, None, false);
        if g.states[e.target].auto_pending {
            rec.key_hash ^= 0x9e3779b97f4a7c15;
        }
        if rec.key_hash != g.states[e.target].key_hash {
            return Err(format!("replay diverged at {} (state {s} -> {})", a.label(w), e.target));
        }
        if out.result != e.result {
            return Err(format!("replay result differs at {}: {} vs {}", a.label(w), out.result, e.result));
        }
        c = out.client;
        s = e.target;
    }
    Ok(())
}

pub fn gid_hex(g: &GroupId) -> String {
    hx(g.as_slice())
}
