//! Replay of a recorded counterexample on fresh real clients, without the explorer.

use serde_json::Value;

use crate::explore::*;
use crate::lab::*;
use crate::props_e1;
use crate::scenario::*;

pub fn replay(prop: &str, file: &str) -> i32 {
    let body: Value = match std::fs::read_to_string(file).ok().and_then(|s| serde_json::from_str(&s).ok()) {
        Some(v) => v,
        None => {
            eprintln!("cannot read replay file {file}");
            return 2;
        }
    };
    let first = &body["first"];
    println!("replaying {} signature: {}", body["property"], body["signature"]);
    if first.get("scenario").is_some() && first.get("trace").is_some() {
        return replay_e1(prop, first);
    }
    println!("(this replay file carries its own case description; see the owning engine)\n{}", serde_json::to_string_pretty(first).unwrap_or_default());
    crate::replay_other(prop, first)
}

fn replay_e1(prop: &str, d: &Value) -> i32 {
    let sc: Scenario = serde_json::from_value(d["scenario"].clone()).expect("scenario");
    let backend = if d["backend"].as_str() == Some("Sqlite") { Bk::Sqlite } else { Bk::Memory };
    let member = d["member"].as_str().unwrap_or("").to_string();
    let regime = if d["regime"].as_str() == Some("Causal") { Regime::Causal } else { Regime::Unrestricted };
    let trace: Vec<Action> = serde_json::from_value(d["trace"].clone()).unwrap_or_default();
    let w = build_world(&sc, backend).expect("world");
    let pool_ids = w.pool_ids();
    let wids = w.welcome_ids();
    let mut c = w.initial[&member].fork();
    println!("scenario {} member {member} backend {backend:?} regime {regime:?}", sc.name);
    for a in &trace {
        let before = c.obs(&wids).to_string();
        let out = step(&w, &c, *a);
        let after = out.client.obs(&wids).to_string();
        println!("  {} -> {}{}", a.label(&w), out.result, if before == after { "   (obs unchanged)" } else { "   (obs changed)" });
        for l in &out.leaks {
            println!("     LEAK {l}");
        }
        c = out.client;
    }
    // settle on the real code
    let root_epoch = w.nodes[&vec![]].core.epoch;
    for _round in 0..(w.pool.len() + 2) {
        let k0 = c.key(&pool_ids, &wids).to_string();
        if c.group_obs(&w.gid).map(|g| g.pending_commit).unwrap_or(false) && !trace.is_empty() {
            // an unpublished auto-commit is eventually dropped (see DESIGN 2.3); own published commits stay
            let authored = w.pool.iter().any(|p| p.author == member && p.kind == EvKind::Commit);
            if !authored {
                let out = step(&w, &c, Action::ClearPending);
                println!("    settle: clear_pending -> {}", out.result);
                c = out.client;
            }
        }
        for &i in &w.settle_order {
            let ep = c.group_obs(&w.gid).and_then(|g| g.mls.map(|m| m.epoch)).unwrap_or(0);
            if regime == Regime::Causal && (w.pool[i].node.len() as u64) > ep.saturating_sub(root_epoch) {
                continue;
            }
            let out = step(&w, &c, Action::Deliver(i));
            println!("    settle: {} -> {}", Action::Deliver(i).label(&w), out.result);
            c = out.client;
        }
        if c.key(&pool_ids, &wids).to_string() == k0 {
            break;
        }
    }
    let go = c.group_obs(&w.gid);
    let rec = StateRec { key_hash: 0, obs_hash: 0, g: go.clone(), dedup: vec![], snap_queue: vec![], snap_stored: vec![], depth: 0, parent: None, key_json: None, auto_pending: false, send_ok: None, foreign_msgs: 0, welcome_states: vec![], welcome_dedup: vec![], routes: vec![] };
    let cls = props_e1::classify(&w, &member, &rec);
    println!("after re-offering everything until nothing changes: {cls:?}");
    println!("  observed: {}", serde_json::to_string(&go.as_ref().map(|g| (&g.mls, &g.record_state))).unwrap_or_default());
    println!("  expected: {}", serde_json::to_string(&w.leaf().core).unwrap_or_default());
    if prop == "C01" && !matches!(cls, props_e1::Conv::Ok | props_e1::Conv::Skip) {
        println!("VIOLATION property=C01 replay=(replayed)");
        return 1;
    }
    0
}
