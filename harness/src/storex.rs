//! E2 storex: bounded-exhaustive operation sequences on both storage backends against a plain
//! reference model of the storage contract (C09, C10, C18).

use std::collections::{BTreeMap, BTreeSet, HashSet};

use mdk_memory_storage::MdkMemoryStorage;
use mdk_sqlite_storage::MdkSqliteStorage;
use mdk_storage_traits::groups::types::{Group, GroupExporterSecret, GroupState, SelfUpdateState};
use mdk_storage_traits::groups::{GroupStorage, MessageSortOrder, Pagination};
use mdk_storage_traits::messages::MessageStorage;
use mdk_storage_traits::messages::types::{Message, MessageState, ProcessedMessage, ProcessedMessageState};
use mdk_storage_traits::welcomes::WelcomeStorage;
use mdk_storage_traits::welcomes::types::{ProcessedWelcome, ProcessedWelcomeState, Welcome, WelcomeState};
use mdk_storage_traits::{GroupId, MdkStorageProvider, Secret};
use nostr::{EventId, Kind, PublicKey, RelayUrl, Tag, TagKind, Tags, Timestamp, UnsignedEvent};
use openmls_traits::storage::{CURRENT_VERSION, Entity, Key, StorageProvider, traits};
use serde::{Deserialize, Serialize};
use serde_json::{Value, json};

use crate::lab::{h64, hx};
use crate::report::Report;

// ---------------------------------------------------------------------------------------
// opaque MLS entities
// ---------------------------------------------------------------------------------------

#[derive(Debug, Clone, PartialEq, Eq, Serialize, Deserialize, PartialOrd, Ord, Hash)]
pub struct Blob(pub Vec<u8>);
impl Key<CURRENT_VERSION> for Blob {}
impl Entity<CURRENT_VERSION> for Blob {}
impl traits::GroupState<CURRENT_VERSION> for Blob {}
impl traits::QueuedProposal<CURRENT_VERSION> for Blob {}
impl traits::ProposalRef<CURRENT_VERSION> for Blob {}
impl traits::LeafNode<CURRENT_VERSION> for Blob {}
impl traits::HpkeKeyPair<CURRENT_VERSION> for Blob {}
impl traits::EpochKey<CURRENT_VERSION> for Blob {}
impl traits::KeyPackage<CURRENT_VERSION> for Blob {}
impl traits::HashReference<CURRENT_VERSION> for Blob {}
impl traits::SignatureKeyPair<CURRENT_VERSION> for Blob {}
impl traits::SignaturePublicKey<CURRENT_VERSION> for Blob {}
impl traits::EncryptionKey<CURRENT_VERSION> for Blob {}
impl traits::PskBundle<CURRENT_VERSION> for Blob {}
impl traits::PskId<CURRENT_VERSION> for Blob {}
impl traits::GroupContext<CURRENT_VERSION> for Blob {}

// ---------------------------------------------------------------------------------------
// operation alphabet (small colliding pools)
// ---------------------------------------------------------------------------------------

#[derive(Debug, Clone, PartialEq, Eq, Serialize, Deserialize, Hash, PartialOrd, Ord)]
pub enum Op {
    SaveGroup { g: u8, nostr: u8, name: u8, epoch: u8, active: bool },
    Relays { g: u8, set: u8 },
    Secret { g: u8, epoch: u8, val: u8 },
    Msg { g: u8, id: u8, created: u8, processed: u8, epoch: Option<u8>, state: u8, tag: u8 },
    Proc { w: u8, g: Option<u8>, epoch: Option<u8>, state: u8 },
    InvMsgs { g: u8, epoch: u8 },
    InvProc { g: u8, epoch: u8 },
    Retry { w: u8 },
    Welcome { id: u8, state: u8 },
    ProcWelcome { w: u8, failed: bool },
    SnapCreate { g: u8, name: u8 },
    SnapRollback { g: u8, name: u8 },
    SnapRelease { g: u8, name: u8 },
    SnapPrune { all: bool },
    MlsState { g: u8, val: u8 },
    MlsContext { g: u8, val: u8 },
    MlsProposal { g: u8, r: u8, val: u8 },
    MlsClearProposals { g: u8 },
    MlsLeaf { g: u8, val: u8 },
    MlsEpochKeys { g: u8, epoch: u8, leaf: u8, val: u8 },
    MlsKeyPackage { r: u8, val: u8 },
    MlsSigKey { k: u8, val: u8 },
    MlsEncKey { k: u8, val: u8 },
    MlsPsk { k: u8, val: u8 },
    /// update_last_message_if_newer with message (g,id) as stored, then save the group (what mdk-core does)
    Pointer { g: u8, id: u8 },
}

pub(crate) fn gid(g: u8) -> GroupId {
    GroupId::from_slice(&[0xA0 + g, 1, 2, 3])
}
fn nid(n: u8) -> [u8; 32] {
    [0x10 + n; 32]
}
pub(crate) fn eid(prefix: u8, i: u8) -> EventId {
    let mut b = [prefix; 32];
    b[31] = i;
    EventId::from_slice(&b).unwrap()
}
fn pk() -> PublicKey {
    PublicKey::from_hex("8a9de562cbbed225b6ea0118dd3997a02df92c0bffd2224f71081a7450c3e549").unwrap()
}
pub(crate) fn relay_set(s: u8) -> BTreeSet<RelayUrl> {
    let all = ["wss://r0.example", "wss://r1.example"];
    (0..2).filter(|i| s & (1 << i) != 0).map(|i| RelayUrl::parse(all[i]).unwrap()).collect()
}
const T: [u64; 2] = [1_700_000_100, 1_700_000_200];
fn mstate(s: u8) -> MessageState {
    [MessageState::Processed, MessageState::Created, MessageState::Deleted, MessageState::EpochInvalidated][s as usize % 4]
}
fn pstate(s: u8) -> ProcessedMessageState {
    [ProcessedMessageState::Processed, ProcessedMessageState::Failed, ProcessedMessageState::Created, ProcessedMessageState::ProcessedCommit, ProcessedMessageState::Retryable, ProcessedMessageState::EpochInvalidated][s as usize % 6]
}
fn wstate(s: u8) -> WelcomeState {
    [WelcomeState::Pending, WelcomeState::Accepted, WelcomeState::Declined][s as usize % 3]
}
fn tags(t: u8) -> Tags {
    match t {
        0 => Tags::new(),
        1 => Tags::from_list(vec![Tag::custom(TagKind::Custom("imeta".into()), ["x abcdef"])]),
        _ => Tags::from_list(vec![Tag::custom(TagKind::Custom("imeta".into()), ["x ABCDEF"])]),
    }
}

pub(crate) fn mk_group(g: u8, nostr: u8, name: u8, epoch: u8, active: bool) -> Group {
    Group {
        mls_group_id: gid(g),
        nostr_group_id: nid(nostr),
        name: format!("name{name}"),
        description: "d".into(),
        image_hash: None,
        image_key: None,
        image_nonce: None,
        admin_pubkeys: [pk()].into_iter().collect(),
        last_message_id: None,
        last_message_at: None,
        last_message_processed_at: None,
        epoch: epoch as u64,
        state: if active { GroupState::Active } else { GroupState::Inactive },
        // the second name variant comes with a completed key rotation (a column of its own in SQLite)
        self_update_state: if name == 1 { SelfUpdateState::CompletedAt(Timestamp::from_secs(T[1] + 50)) } else { SelfUpdateState::Required },
    }
}

pub(crate) fn mk_msg(g: u8, id: u8, created: u8, processed: u8, epoch: Option<u8>, state: u8, tag: u8) -> Message {
    let ca = Timestamp::from_secs(T[created as usize % 2]);
    let tg = tags(tag);
    Message {
        id: eid(0x30, id),
        pubkey: pk(),
        kind: Kind::Custom(9),
        mls_group_id: gid(g),
        created_at: ca,
        processed_at: Timestamp::from_secs(T[processed as usize % 2]),
        content: format!("c{id}"),
        tags: tg.clone(),
        event: UnsignedEvent::new(pk(), ca, Kind::Custom(9), tg, format!("c{id}")),
        // wrapper ids sort the other way round than message ids (a listing that ties on both timestamps is ordered by message id)
        wrapper_event_id: eid(0x40, 0x7f - (id & 0x7f)),
        epoch: epoch.map(|e| e as u64),
        state: mstate(state),
    }
}

pub(crate) fn mk_proc(w: u8, g: Option<u8>, epoch: Option<u8>, state: u8) -> ProcessedMessage {
    ProcessedMessage {
        wrapper_event_id: eid(0x40, w),
        message_event_id: Some(eid(0x30, w)),
        processed_at: Timestamp::from_secs(T[0]),
        epoch: epoch.map(|e| e as u64),
        mls_group_id: g.map(gid),
        state: pstate(state),
        failure_reason: if pstate(state) == ProcessedMessageState::Failed { Some("r".into()) } else { None },
    }
}

fn mk_welcome(id: u8, state: u8) -> Welcome {
    Welcome {
        id: eid(0x50, id),
        event: UnsignedEvent::new(pk(), Timestamp::from_secs(T[0]), Kind::MlsWelcome, Tags::new(), "w".to_string()),
        mls_group_id: gid(0),
        nostr_group_id: nid(0),
        group_name: "n".into(),
        group_description: "d".into(),
        group_image_hash: None,
        group_image_key: None,
        group_image_nonce: None,
        group_admin_pubkeys: [pk()].into_iter().collect(),
        group_relays: relay_set(1),
        welcomer: pk(),
        member_count: 2,
        state: wstate(state),
        wrapper_event_id: eid(0x60, id),
    }
}

pub(crate) fn omls_gid(g: u8) -> openmls::group::GroupId {
    openmls::group::GroupId::from_slice(gid(g).as_slice())
}

// ---------------------------------------------------------------------------------------
// canonical rendering
// ---------------------------------------------------------------------------------------

pub(crate) fn group_s(g: &Group) -> String {
    json!({"g": hx(g.mls_group_id.as_slice()), "n": hx(&g.nostr_group_id), "name": g.name, "epoch": g.epoch, "state": g.state.as_str(),
        "lm": g.last_message_id.map(|i| i.to_hex()), "lma": g.last_message_at.map(|t| t.as_secs()), "lmp": g.last_message_processed_at.map(|t| t.as_secs()),
        "su": match g.self_update_state { SelfUpdateState::Required => "required".to_string(), SelfUpdateState::CompletedAt(t) => format!("completed@{}", t.as_secs()) }})
    .to_string()
}
pub(crate) fn msg_s(m: &Message) -> String {
    json!({"id": m.id.to_hex(), "g": hx(m.mls_group_id.as_slice()), "ca": m.created_at.as_secs(), "pa": m.processed_at.as_secs(), "e": m.epoch, "s": m.state.as_str(),
        "c": m.content, "t": serde_json::to_value(&m.tags).unwrap_or(Value::Null), "w": m.wrapper_event_id.to_hex()})
    .to_string()
}
pub(crate) fn proc_s(p: &ProcessedMessage) -> String {
    json!({"w": p.wrapper_event_id.to_hex(), "m": p.message_event_id.map(|i| i.to_hex()), "e": p.epoch, "g": p.mls_group_id.as_ref().map(|g| hx(g.as_slice())), "s": p.state.as_str(), "r": p.failure_reason}).to_string()
}
fn welcome_s(w: &Welcome) -> String {
    json!({"id": w.id.to_hex(), "s": w.state.as_str(), "wr": w.wrapper_event_id.to_hex()}).to_string()
}
pub(crate) fn r<T, E>(x: Result<T, E>, f: impl FnOnce(T) -> String) -> String {
    match x {
        Ok(v) => f(v),
        Err(_) => "ERR".into(),
    }
}
pub(crate) fn set_s(mut v: Vec<String>) -> String {
    v.sort();
    format!("{{{}}}", v.join(","))
}
pub(crate) fn list_s(v: Vec<String>) -> String {
    format!("[{}]", v.join(","))
}

// ---------------------------------------------------------------------------------------
// apply an operation to a real backend
// ---------------------------------------------------------------------------------------

pub fn apply<S: MdkStorageProvider>(s: &S, op: &Op) -> String {
    match op {
        Op::SaveGroup { g, nostr, name, epoch, active } => {
            // keep the last-message pointer the stored group has (a caller reads, modifies, saves)
            let mut grp = mk_group(*g, *nostr, *name, *epoch, *active);
            if let Ok(Some(old)) = s.find_group_by_mls_group_id(&gid(*g)) {
                grp.last_message_id = old.last_message_id;
                grp.last_message_at = old.last_message_at;
                grp.last_message_processed_at = old.last_message_processed_at;
            }
            r(s.save_group(grp), |_| "ok".into())
        }
        Op::Relays { g, set } => r(s.replace_group_relays(&gid(*g), relay_set(*set)), |_| "ok".into()),
        Op::Secret { g, epoch, val } => r(s.save_group_exporter_secret(GroupExporterSecret { mls_group_id: gid(*g), epoch: *epoch as u64, secret: Secret::new([*val; 32]) }), |_| "ok".into()),
        Op::Msg { g, id, created, processed, epoch, state, tag } => r(s.save_message(mk_msg(*g, *id, *created, *processed, *epoch, *state, *tag)), |_| "ok".into()),
        Op::Proc { w, g, epoch, state } => r(s.save_processed_message(mk_proc(*w, *g, *epoch, *state)), |_| "ok".into()),
        Op::InvMsgs { g, epoch } => r(s.invalidate_messages_after_epoch(&gid(*g), *epoch as u64), |v| set_s(v.iter().map(|i| i.to_hex()).collect())),
        Op::InvProc { g, epoch } => r(s.invalidate_processed_messages_after_epoch(&gid(*g), *epoch as u64), |v| set_s(v.iter().map(|i| i.to_hex()).collect())),
        Op::Retry { w } => r(s.mark_processed_message_retryable(&eid(0x40, *w)), |_| "ok".into()),
        Op::Welcome { id, state } => r(s.save_welcome(mk_welcome(*id, *state)), |_| "ok".into()),
        Op::ProcWelcome { w, failed } => r(
            s.save_processed_welcome(ProcessedWelcome { wrapper_event_id: eid(0x60, *w), welcome_event_id: Some(eid(0x50, *w)), processed_at: Timestamp::from_secs(T[0]), state: if *failed { ProcessedWelcomeState::Failed } else { ProcessedWelcomeState::Processed }, failure_reason: None }),
            |_| "ok".into(),
        ),
        Op::SnapCreate { g, name } => r(s.create_group_snapshot(&gid(*g), &format!("snap{name}")), |_| "ok".into()),
        Op::SnapRollback { g, name } => r(s.rollback_group_to_snapshot(&gid(*g), &format!("snap{name}")), |_| "ok".into()),
        Op::SnapRelease { g, name } => r(s.release_group_snapshot(&gid(*g), &format!("snap{name}")), |_| "ok".into()),
        Op::SnapPrune { all } => r(s.prune_expired_snapshots(if *all { u64::MAX / 4 } else { 0 }), |n| format!("{n}")),
        Op::MlsState { g, val } => r(s.write_group_state(&omls_gid(*g), &Blob(vec![*val])), |_| "ok".into()),
        Op::MlsContext { g, val } => r(s.write_context(&omls_gid(*g), &Blob(vec![*val, 9])), |_| "ok".into()),
        Op::MlsProposal { g, r: pr, val } => r(s.queue_proposal(&omls_gid(*g), &Blob(vec![0x70, *pr]), &Blob(vec![*val])), |_| "ok".into()),
        Op::MlsClearProposals { g } => r(s.clear_proposal_queue::<openmls::group::GroupId, Blob>(&omls_gid(*g)), |_| "ok".into()),
        Op::MlsLeaf { g, val } => r(s.append_own_leaf_node(&omls_gid(*g), &Blob(vec![*val])), |_| "ok".into()),
        Op::MlsEpochKeys { g, epoch, leaf, val } => r(s.write_encryption_epoch_key_pairs(&omls_gid(*g), &Blob(vec![0x71, *epoch]), *leaf as u32, &[Blob(vec![*val])]), |_| "ok".into()),
        Op::MlsKeyPackage { r: kr, val } => r(s.write_key_package(&Blob(vec![0x72, *kr]), &Blob(vec![*val])), |_| "ok".into()),
        Op::MlsSigKey { k, val } => r(s.write_signature_key_pair(&Blob(vec![0x73, *k]), &Blob(vec![*val])), |_| "ok".into()),
        Op::MlsEncKey { k, val } => r(s.write_encryption_key_pair(&Blob(vec![0x74, *k]), &Blob(vec![*val])), |_| "ok".into()),
        Op::MlsPsk { k, val } => r(s.write_psk(&Blob(vec![0x75, *k]), &Blob(vec![*val])), |_| "ok".into()),
        Op::Pointer { g, id } => {
            let grp = s.find_group_by_mls_group_id(&gid(*g)).ok().flatten();
            let msg = s.find_message_by_event_id(&gid(*g), &eid(0x30, *id)).ok().flatten();
            match (grp, msg) {
                (Some(mut grp), Some(m)) => {
                    let changed = grp.update_last_message_if_newer(&m);
                    r(s.save_group(grp), |_| format!("ok:{changed}"))
                }
                _ => "noop".into(),
            }
        }
    }
}

// ---------------------------------------------------------------------------------------
// the whole read surface
// ---------------------------------------------------------------------------------------

pub struct Pools {
    pub groups: u8,
    pub nostr: u8,
    pub msgs: u8,
    pub wrappers: u8,
    pub welcomes: u8,
}

pub const PAGES: [(Option<usize>, Option<usize>); 9] = [(Some(0), Some(0)), (Some(1), Some(0)), (Some(1), Some(1)), (Some(1), Some(2)), (Some(2), Some(0)), (Some(2), Some(1)), (Some(3), Some(3)), (Some(10000), Some(0)), (Some(10001), Some(0))];

pub fn reads<S: MdkStorageProvider>(s: &S, p: &Pools) -> Vec<(String, String)> {
    let mut out: Vec<(String, String)> = Vec::new();
    out.push(("all_groups".into(), r(s.all_groups(), |v| set_s(v.iter().map(group_s).collect()))));
    for n in 0..p.nostr {
        out.push((format!("by_nostr({n})"), r(s.find_group_by_nostr_group_id(&nid(n)), |g| g.map(|g| group_s(&g)).unwrap_or("none".into()))));
    }
    for g in 0..p.groups {
        let id = gid(g);
        out.push((format!("group({g})"), r(s.find_group_by_mls_group_id(&id), |g| g.map(|g| group_s(&g)).unwrap_or("none".into()))));
        out.push((format!("admins({g})"), r(s.admins(&id), |a| format!("{}", a.len()))));
        out.push((format!("relays({g})"), r(s.group_relays(&id), |v| set_s(v.iter().map(|x| x.relay_url.to_string()).collect()))));
        for e in 0..3u64 {
            out.push((format!("secret({g},{e})"), r(s.get_group_exporter_secret(&id, e), |x| x.map(|x| hx(&x.secret.as_ref()[..1])).unwrap_or("none".into()))));
        }
        for sort in [MessageSortOrder::CreatedAtFirst, MessageSortOrder::ProcessedAtFirst] {
            out.push((format!("messages({g},default,{sort:?})"), r(s.messages(&id, Some(Pagination::with_sort_order(None, None, sort))), |v| list_s(v.iter().map(msg_s).collect()))));
            for (l, o) in PAGES {
                out.push((format!("messages({g},{l:?},{o:?},{sort:?})"), r(s.messages(&id, Some(Pagination::with_sort_order(l, o, sort))), |v| list_s(v.iter().map(|m| m.id.to_hex()[62..].to_string()).collect()))));
            }
            out.push((format!("last_message({g},{sort:?})"), r(s.last_message(&id, sort), |m| m.map(|m| m.id.to_hex()).unwrap_or("none".into()))));
        }
        out.push((format!("messages({g},None)"), r(s.messages(&id, None), |v| list_s(v.iter().map(|m| m.id.to_hex()[62..].to_string()).collect()))));
        for m in 0..p.msgs {
            out.push((format!("message({g},{m})"), r(s.find_message_by_event_id(&id, &eid(0x30, m)), |x| x.map(|x| msg_s(&x)).unwrap_or("none".into()))));
        }
        out.push((format!("invalidated_messages({g})"), r(s.find_invalidated_messages(&id), |v| set_s(v.iter().map(msg_s).collect()))));
        out.push((format!("invalidated_processed({g})"), r(s.find_invalidated_processed_messages(&id), |v| set_s(v.iter().map(proc_s).collect()))));
        out.push((format!("failed_for_retry({g})"), r(s.find_failed_messages_for_retry(&id), |v| set_s(v.iter().map(|i| i.to_hex()).collect()))));
        for sub in ["abcdef", "ABCDEF", "zzz"] {
            out.push((format!("epoch_by_tag({g},{sub})"), r(s.find_message_epoch_by_tag_content(&id, sub), |e| e.map(|e| format!("{e}")).unwrap_or("none".into()))));
        }
        out.push((format!("snapshots({g})"), r(s.list_group_snapshots(&id), |v| set_s(v.into_iter().map(|x| x.0).collect()))));
        // OpenMLS reads
        let og = omls_gid(g);
        out.push((format!("mls_state({g})"), r(s.group_state::<Blob, _>(&og), |x| format!("{x:?}"))));
        out.push((format!("mls_context({g})"), r(s.group_context::<_, Blob>(&og), |x| format!("{x:?}"))));
        out.push((format!("mls_proposals({g})"), r(s.queued_proposals::<_, Blob, Blob>(&og), |v| set_s(v.iter().map(|x| format!("{x:?}")).collect()))));
        out.push((format!("mls_proposal_refs({g})"), r(s.queued_proposal_refs::<_, Blob>(&og), |v| set_s(v.iter().map(|x| format!("{x:?}")).collect()))));
        out.push((format!("mls_leaves({g})"), r(s.own_leaf_nodes::<_, Blob>(&og), |v| list_s(v.iter().map(|x| format!("{x:?}")).collect()))));
        for e in 0..2u8 {
            for leaf in 0..2u32 {
                out.push((format!("mls_epoch_keys({g},{e},{leaf})"), r(s.encryption_epoch_key_pairs::<_, Blob, Blob>(&og, &Blob(vec![0x71, e]), leaf), |v| list_s(v.iter().map(|x| format!("{x:?}")).collect()))));
            }
        }
    }
    for w in 0..p.wrappers {
        out.push((format!("processed({w})"), r(s.find_processed_message_by_event_id(&eid(0x40, w)), |x| x.map(|x| proc_s(&x)).unwrap_or("none".into()))));
    }
    for w in 0..p.welcomes {
        out.push((format!("welcome({w})"), r(s.find_welcome_by_event_id(&eid(0x50, w)), |x| x.map(|x| welcome_s(&x)).unwrap_or("none".into()))));
        out.push((format!("processed_welcome({w})"), r(s.find_processed_welcome_by_event_id(&eid(0x60, w)), |x| x.map(|x| format!("{}", x.state.as_str())).unwrap_or("none".into()))));
    }
    for (l, o) in [(None, None), (Some(0), Some(0)), (Some(1), Some(0)), (Some(1), Some(1)), (Some(10000), Some(0)), (Some(10001), Some(0))] {
        out.push((format!("pending_welcomes({l:?},{o:?})"), r(s.pending_welcomes(Some(mdk_storage_traits::welcomes::Pagination::new(l, o))), |v| list_s(v.iter().map(welcome_s).collect()))));
    }
    for k in 0..2u8 {
        out.push((format!("mls_key_package({k})"), r(s.key_package::<_, Blob>(&Blob(vec![0x72, k])), |x| format!("{x:?}"))));
        out.push((format!("mls_sig_key({k})"), r(s.signature_key_pair::<_, Blob>(&Blob(vec![0x73, k])), |x| format!("{x:?}"))));
        out.push((format!("mls_enc_key({k})"), r(s.encryption_key_pair::<Blob, _>(&Blob(vec![0x74, k])), |x| format!("{x:?}"))));
        out.push((format!("mls_psk({k})"), r(s.psk::<Blob, _>(&Blob(vec![0x75, k])), |x| format!("{x:?}"))));
    }
    out
}

// ---------------------------------------------------------------------------------------
// the reference model: plain maps, written from the trait documentation
// ---------------------------------------------------------------------------------------

#[derive(Clone, Default, PartialEq, Eq)]
pub struct Scoped {
    group: Option<Group>,
    relays: BTreeSet<RelayUrl>,
    secrets: BTreeMap<u64, u8>,
    mls_state: Option<Blob>,
    mls_context: Option<Blob>,
    proposals: BTreeMap<Blob, Blob>,
    leaves: Vec<Blob>,
    epoch_keys: BTreeMap<(Blob, u32), Vec<Blob>>,
}

#[derive(Clone, Default)]
pub struct Model {
    groups: BTreeMap<GroupId, Group>,
    relays: BTreeMap<GroupId, BTreeSet<RelayUrl>>,
    secrets: BTreeMap<(GroupId, u64), u8>,
    messages: BTreeMap<(GroupId, EventId), Message>,
    processed: BTreeMap<EventId, ProcessedMessage>,
    welcomes: BTreeMap<EventId, Welcome>,
    processed_welcomes: BTreeMap<EventId, ProcessedWelcome>,
    snapshots: BTreeMap<(GroupId, String), Scoped>,
    mls_state: BTreeMap<GroupId, Blob>,
    mls_context: BTreeMap<GroupId, Blob>,
    proposals: BTreeMap<(GroupId, Blob), Blob>,
    leaves: BTreeMap<GroupId, Vec<Blob>>,
    epoch_keys: BTreeMap<(GroupId, Blob, u32), Vec<Blob>>,
    key_packages: BTreeMap<Blob, Blob>,
    sig_keys: BTreeMap<Blob, Blob>,
    enc_keys: BTreeMap<Blob, Blob>,
    psks: BTreeMap<Blob, Blob>,
}

impl Model {
    pub fn canon(&self) -> u64 {
        let mut s = String::new();
        for g in self.groups.values() {
            s.push_str(&group_s(g));
        }
        s.push_str(&format!("{:?}{:?}", self.relays, self.secrets));
        for m in self.messages.values() {
            s.push_str(&msg_s(m));
        }
        for p in self.processed.values() {
            s.push_str(&proc_s(p));
        }
        for w in self.welcomes.values() {
            s.push_str(&welcome_s(w));
        }
        s.push_str(&format!("{:?}", self.processed_welcomes.iter().map(|(k, v)| (k.to_hex(), v.state.as_str().to_string())).collect::<Vec<_>>()));
        for ((g, n), sc) in &self.snapshots {
            s.push_str(&format!("{}{n}{:?}{:?}{:?}{:?}{:?}{:?}{:?}", hx(g.as_slice()), sc.group.as_ref().map(group_s), sc.relays, sc.secrets, sc.mls_state, sc.proposals, sc.leaves, sc.epoch_keys));
        }
        s.push_str(&format!("{:?}{:?}{:?}{:?}{:?}{:?}{:?}{:?}{:?}", self.mls_state, self.mls_context, self.proposals, self.leaves, self.epoch_keys, self.key_packages, self.sig_keys, self.enc_keys, self.psks));
        h64(&s)
    }

    fn scoped(&self, g: &GroupId) -> Scoped {
        Scoped {
            group: self.groups.get(g).cloned(),
            relays: self.relays.get(g).cloned().unwrap_or_default(),
            secrets: self.secrets.iter().filter(|((gg, _), _)| gg == g).map(|((_, e), v)| (*e, *v)).collect(),
            mls_state: self.mls_state.get(g).cloned(),
            mls_context: self.mls_context.get(g).cloned(),
            proposals: self.proposals.iter().filter(|((gg, _), _)| gg == g).map(|((_, r), v)| (r.clone(), v.clone())).collect(),
            leaves: self.leaves.get(g).cloned().unwrap_or_default(),
            epoch_keys: self.epoch_keys.iter().filter(|((gg, _, _), _)| gg == g).map(|((_, e, l), v)| ((e.clone(), *l), v.clone())).collect(),
        }
    }

    /// Operations the storage contract does not define are left out of the search: snapshot operations on
    /// a group that has no record (mdk-core only snapshots groups it holds).
    pub fn in_contract(&self, op: &Op) -> bool {
        match op {
            Op::SnapCreate { g, .. } | Op::SnapRollback { g, .. } | Op::SnapRelease { g, .. } => self.groups.contains_key(&gid(*g)),
            _ => true,
        }
    }

    pub fn apply(&mut self, op: &Op) -> String {
        match op {
            Op::SaveGroup { g, nostr, name, epoch, active } => {
                let mut grp = mk_group(*g, *nostr, *name, *epoch, *active);
                if self.groups.values().any(|x| x.nostr_group_id == grp.nostr_group_id && x.mls_group_id != grp.mls_group_id) {
                    return "ERR".into();
                }
                if let Some(old) = self.groups.get(&gid(*g)) {
                    grp.last_message_id = old.last_message_id;
                    grp.last_message_at = old.last_message_at;
                    grp.last_message_processed_at = old.last_message_processed_at;
                }
                self.groups.insert(gid(*g), grp);
                "ok".into()
            }
            Op::Relays { g, set } => {
                if !self.groups.contains_key(&gid(*g)) {
                    return "ERR".into();
                }
                self.relays.insert(gid(*g), relay_set(*set));
                "ok".into()
            }
            Op::Secret { g, epoch, val } => {
                if !self.groups.contains_key(&gid(*g)) {
                    return "ERR".into();
                }
                self.secrets.insert((gid(*g), *epoch as u64), *val);
                "ok".into()
            }
            Op::Msg { g, id, created, processed, epoch, state, tag } => {
                if !self.groups.contains_key(&gid(*g)) {
                    return "ERR".into();
                }
                self.messages.insert((gid(*g), eid(0x30, *id)), mk_msg(*g, *id, *created, *processed, *epoch, *state, *tag));
                "ok".into()
            }
            Op::Proc { w, g, epoch, state } => {
                self.processed.insert(eid(0x40, *w), mk_proc(*w, *g, *epoch, *state));
                "ok".into()
            }
            Op::InvMsgs { g, epoch } => {
                let mut ids = Vec::new();
                for ((gg, id), m) in self.messages.iter_mut() {
                    if *gg == gid(*g) && m.epoch.map(|e| e > *epoch as u64).unwrap_or(false) {
                        m.state = MessageState::EpochInvalidated;
                        ids.push(id.to_hex());
                    }
                }
                set_s(ids)
            }
            Op::InvProc { g, epoch } => {
                let mut ids = Vec::new();
                for (w, p) in self.processed.iter_mut() {
                    if p.mls_group_id.as_ref() == Some(&gid(*g)) && p.epoch.map(|e| e > *epoch as u64).unwrap_or(false) {
                        p.state = ProcessedMessageState::EpochInvalidated;
                        ids.push(w.to_hex());
                    }
                }
                set_s(ids)
            }
            Op::Retry { w } => match self.processed.get_mut(&eid(0x40, *w)) {
                Some(p) if p.state == ProcessedMessageState::Failed => {
                    p.state = ProcessedMessageState::Retryable;
                    "ok".into()
                }
                _ => "ERR".into(),
            },
            Op::Welcome { id, state } => {
                self.welcomes.insert(eid(0x50, *id), mk_welcome(*id, *state));
                "ok".into()
            }
            Op::ProcWelcome { w, failed } => {
                self.processed_welcomes.insert(eid(0x60, *w), ProcessedWelcome { wrapper_event_id: eid(0x60, *w), welcome_event_id: Some(eid(0x50, *w)), processed_at: Timestamp::from_secs(T[0]), state: if *failed { ProcessedWelcomeState::Failed } else { ProcessedWelcomeState::Processed }, failure_reason: None });
                "ok".into()
            }
            Op::SnapCreate { g, name } => {
                // re-taking a snapshot under an existing name replaces it
                let sc = self.scoped(&gid(*g));
                self.snapshots.insert((gid(*g), format!("snap{name}")), sc);
                "ok".into()
            }
            Op::SnapRollback { g, name } => {
                let Some(sc) = self.snapshots.remove(&(gid(*g), format!("snap{name}"))) else { return "ERR".into() };
                let id = gid(*g);
                match sc.group {
                    Some(grp) => {
                        self.groups.insert(id.clone(), grp);
                    }
                    None => {
                        self.groups.remove(&id);
                    }
                }
                self.relays.remove(&id);
                if !sc.relays.is_empty() {
                    self.relays.insert(id.clone(), sc.relays);
                }
                self.secrets.retain(|(gg, _), _| *gg != id);
                for (e, v) in sc.secrets {
                    self.secrets.insert((id.clone(), e), v);
                }
                self.mls_state.remove(&id);
                if let Some(b) = sc.mls_state {
                    self.mls_state.insert(id.clone(), b);
                }
                self.mls_context.remove(&id);
                if let Some(b) = sc.mls_context {
                    self.mls_context.insert(id.clone(), b);
                }
                self.proposals.retain(|(gg, _), _| *gg != id);
                for (pr, v) in sc.proposals {
                    self.proposals.insert((id.clone(), pr), v);
                }
                self.leaves.remove(&id);
                if !sc.leaves.is_empty() {
                    self.leaves.insert(id.clone(), sc.leaves);
                }
                self.epoch_keys.retain(|(gg, _, _), _| *gg != id);
                for ((e, l), v) in sc.epoch_keys {
                    self.epoch_keys.insert((id.clone(), e, l), v);
                }
                "ok".into()
            }
            Op::SnapRelease { g, name } => {
                self.snapshots.remove(&(gid(*g), format!("snap{name}")));
                "ok".into()
            }
            Op::SnapPrune { all } => {
                if *all {
                    let n = self.snapshots.len();
                    self.snapshots.clear();
                    format!("{n}")
                } else {
                    "0".into()
                }
            }
            Op::MlsState { g, val } => {
                self.mls_state.insert(gid(*g), Blob(vec![*val]));
                "ok".into()
            }
            Op::MlsContext { g, val } => {
                self.mls_context.insert(gid(*g), Blob(vec![*val, 9]));
                "ok".into()
            }
            Op::MlsProposal { g, r, val } => {
                self.proposals.insert((gid(*g), Blob(vec![0x70, *r])), Blob(vec![*val]));
                "ok".into()
            }
            Op::MlsClearProposals { g } => {
                let id = gid(*g);
                self.proposals.retain(|(gg, _), _| *gg != id);
                "ok".into()
            }
            Op::MlsLeaf { g, val } => {
                self.leaves.entry(gid(*g)).or_default().push(Blob(vec![*val]));
                "ok".into()
            }
            Op::MlsEpochKeys { g, epoch, leaf, val } => {
                self.epoch_keys.insert((gid(*g), Blob(vec![0x71, *epoch]), *leaf as u32), vec![Blob(vec![*val])]);
                "ok".into()
            }
            Op::MlsKeyPackage { r, val } => {
                self.key_packages.insert(Blob(vec![0x72, *r]), Blob(vec![*val]));
                "ok".into()
            }
            Op::MlsSigKey { k, val } => {
                self.sig_keys.insert(Blob(vec![0x73, *k]), Blob(vec![*val]));
                "ok".into()
            }
            Op::MlsEncKey { k, val } => {
                self.enc_keys.insert(Blob(vec![0x74, *k]), Blob(vec![*val]));
                "ok".into()
            }
            Op::MlsPsk { k, val } => {
                self.psks.insert(Blob(vec![0x75, *k]), Blob(vec![*val]));
                "ok".into()
            }
            Op::Pointer { g, id } => {
                let m = self.messages.get(&(gid(*g), eid(0x30, *id))).cloned();
                match (self.groups.get_mut(&gid(*g)), m) {
                    (Some(grp), Some(m)) => {
                        // documented rule: the pointer designates the first message of the default order
                        let newer = match (grp.last_message_at, grp.last_message_processed_at, grp.last_message_id) {
                            (None, _, _) => true,
                            (Some(a), Some(p), Some(i)) => (m.created_at, m.processed_at, m.id) > (a, p, i),
                            (Some(a), None, _) => m.created_at >= a,
                            (Some(a), Some(_), None) => m.created_at > a,
                        };
                        if newer {
                            grp.last_message_at = Some(m.created_at);
                            grp.last_message_processed_at = Some(m.processed_at);
                            grp.last_message_id = Some(m.id);
                        }
                        format!("ok:{newer}")
                    }
                    _ => "noop".into(),
                }
            }
        }
    }

    fn sorted_msgs(&self, g: &GroupId, sort: MessageSortOrder) -> Vec<&Message> {
        let mut v: Vec<&Message> = self.messages.iter().filter(|((gg, _), _)| gg == g).map(|(_, m)| m).collect();
        match sort {
            // documented: created_at DESC, processed_at DESC, id DESC
            MessageSortOrder::CreatedAtFirst => v.sort_by(|a, b| (b.created_at, b.processed_at, b.id).cmp(&(a.created_at, a.processed_at, a.id))),
            // documented: processed_at DESC, created_at DESC, id DESC
            MessageSortOrder::ProcessedAtFirst => v.sort_by(|a, b| (b.processed_at, b.created_at, b.id).cmp(&(a.processed_at, a.created_at, a.id))),
        }
        v
    }

    pub fn reads(&self, p: &Pools) -> Vec<(String, String)> {
        let mut out: Vec<(String, String)> = Vec::new();
        out.push(("all_groups".into(), set_s(self.groups.values().map(group_s).collect())));
        for n in 0..p.nostr {
            out.push((format!("by_nostr({n})"), self.groups.values().find(|g| g.nostr_group_id == nid(n)).map(group_s).unwrap_or("none".into())));
        }
        for g in 0..p.groups {
            let id = gid(g);
            let exists = self.groups.contains_key(&id);
            out.push((format!("group({g})"), self.groups.get(&id).map(group_s).unwrap_or("none".into())));
            out.push((format!("admins({g})"), if exists { "1".into() } else { "ERR".into() }));
            out.push((format!("relays({g})"), if exists { set_s(self.relays.get(&id).map(|s| s.iter().map(|u| u.to_string()).collect()).unwrap_or_default()) } else { "ERR".into() }));
            for e in 0..3u64 {
                out.push((format!("secret({g},{e})"), if exists { self.secrets.get(&(id.clone(), e)).map(|v| hx(&[*v])).unwrap_or("none".into()) } else { "ERR".into() }));
            }
            for sort in [MessageSortOrder::CreatedAtFirst, MessageSortOrder::ProcessedAtFirst] {
                let all = self.sorted_msgs(&id, sort);
                out.push((format!("messages({g},default,{sort:?})"), if exists { list_s(all.iter().take(1000).map(|m| msg_s(m)).collect()) } else { "ERR".into() }));
                for (l, o) in PAGES {
                    let lim = l.unwrap_or(1000);
                    let off = o.unwrap_or(0);
                    let ans = if !(1..=10000).contains(&lim) || !exists { "ERR".to_string() } else { list_s(all.iter().skip(off).take(lim).map(|m| m.id.to_hex()[62..].to_string()).collect()) };
                    out.push((format!("messages({g},{l:?},{o:?},{sort:?})"), ans));
                }
                out.push((format!("last_message({g},{sort:?})"), if exists { all.first().map(|m| m.id.to_hex()).unwrap_or("none".into()) } else { "ERR".into() }));
            }
            out.push((format!("messages({g},None)"), if exists { list_s(self.sorted_msgs(&id, MessageSortOrder::CreatedAtFirst).iter().take(1000).map(|m| m.id.to_hex()[62..].to_string()).collect()) } else { "ERR".into() }));
            for m in 0..p.msgs {
                out.push((format!("message({g},{m})"), self.messages.get(&(id.clone(), eid(0x30, m))).map(msg_s).unwrap_or("none".into())));
            }
            out.push((format!("invalidated_messages({g})"), set_s(self.messages.iter().filter(|((gg, _), m)| *gg == id && m.state == MessageState::EpochInvalidated).map(|(_, m)| msg_s(m)).collect())));
            out.push((format!("invalidated_processed({g})"), set_s(self.processed.values().filter(|p| p.mls_group_id.as_ref() == Some(&id) && p.state == ProcessedMessageState::EpochInvalidated).map(proc_s).collect())));
            out.push((format!("failed_for_retry({g})"), set_s(self.processed.values().filter(|p| p.mls_group_id.as_ref() == Some(&id) && p.state == ProcessedMessageState::Failed && p.epoch.is_none()).map(|p| p.wrapper_event_id.to_hex()).collect())));
            for sub in ["abcdef", "ABCDEF", "zzz"] {
                // "some matching epoch": the model answers with the set of admissible answers
                let cands: BTreeSet<u64> = self.messages.iter().filter(|((gg, _), m)| *gg == id && m.epoch.is_some() && serde_json::to_string(&m.tags).unwrap_or_default().contains(sub)).map(|(_, m)| m.epoch.unwrap()).collect();
                out.push((format!("epoch_by_tag({g},{sub})"), if cands.is_empty() { "none".into() } else { format!("ANYOF{:?}", cands) }));
            }
            out.push((format!("snapshots({g})"), set_s(self.snapshots.keys().filter(|(gg, _)| *gg == id).map(|(_, n)| n.clone()).collect())));
            out.push((format!("mls_state({g})"), format!("{:?}", self.mls_state.get(&id))));
            out.push((format!("mls_context({g})"), format!("{:?}", self.mls_context.get(&id))));
            out.push((format!("mls_proposals({g})"), set_s(self.proposals.iter().filter(|((gg, _), _)| *gg == id).map(|((_, r), v)| format!("{:?}", (r, v))).collect())));
            out.push((format!("mls_proposal_refs({g})"), set_s(self.proposals.iter().filter(|((gg, _), _)| *gg == id).map(|((_, r), _)| format!("{r:?}")).collect())));
            out.push((format!("mls_leaves({g})"), list_s(self.leaves.get(&id).map(|v| v.iter().map(|x| format!("{x:?}")).collect()).unwrap_or_default())));
            for e in 0..2u8 {
                for leaf in 0..2u32 {
                    out.push((format!("mls_epoch_keys({g},{e},{leaf})"), list_s(self.epoch_keys.get(&(id.clone(), Blob(vec![0x71, e]), leaf)).map(|v| v.iter().map(|x| format!("{x:?}")).collect()).unwrap_or_default())));
                }
            }
        }
        for w in 0..p.wrappers {
            out.push((format!("processed({w})"), self.processed.get(&eid(0x40, w)).map(proc_s).unwrap_or("none".into())));
        }
        for w in 0..p.welcomes {
            out.push((format!("welcome({w})"), self.welcomes.get(&eid(0x50, w)).map(welcome_s).unwrap_or("none".into())));
            out.push((format!("processed_welcome({w})"), self.processed_welcomes.get(&eid(0x60, w)).map(|x| x.state.as_str().to_string()).unwrap_or("none".into())));
        }
        let mut pend: Vec<&Welcome> = self.welcomes.values().filter(|w| w.state == WelcomeState::Pending).collect();
        pend.sort_by(|a, b| b.id.cmp(&a.id));
        for (l, o) in [(None, None), (Some(0usize), Some(0usize)), (Some(1), Some(0)), (Some(1), Some(1)), (Some(10000), Some(0)), (Some(10001), Some(0))] {
            let lim = l.unwrap_or(1000);
            let off = o.unwrap_or(0);
            let ans = if !(1..=10000).contains(&lim) { "ERR".to_string() } else { list_s(pend.iter().skip(off).take(lim).map(|w| welcome_s(w)).collect()) };
            out.push((format!("pending_welcomes({l:?},{o:?})"), ans));
        }
        for k in 0..2u8 {
            out.push((format!("mls_key_package({k})"), format!("{:?}", self.key_packages.get(&Blob(vec![0x72, k])))));
            out.push((format!("mls_sig_key({k})"), format!("{:?}", self.sig_keys.get(&Blob(vec![0x73, k])))));
            out.push((format!("mls_enc_key({k})"), format!("{:?}", self.enc_keys.get(&Blob(vec![0x74, k])))));
            out.push((format!("mls_psk({k})"), format!("{:?}", self.psks.get(&Blob(vec![0x75, k])))));
        }
        out
    }
}

/// does a backend answer agree with the model answer (model may give a set of admissible answers)
fn agrees(model: &str, got: &str) -> bool {
    if let Some(rest) = model.strip_prefix("ANYOF{") {
        let allowed: Vec<&str> = rest.trim_end_matches('}').split(", ").collect();
        return allowed.contains(&got);
    }
    model == got
}

// ---------------------------------------------------------------------------------------
// alphabets
// ---------------------------------------------------------------------------------------

pub fn alphabet(kind: &str, big: bool) -> (Vec<Op>, Pools) {
    let mut v = Vec::new();
    let g_n: u8 = 2;
    match kind {
        "groups" => {
            for g in 0..g_n {
                for nostr in 0..3 {
                    v.push(Op::SaveGroup { g, nostr, name: nostr % 2, epoch: nostr % 2, active: nostr != 2 });
                }
                for set in [0, 1, 3] {
                    v.push(Op::Relays { g, set });
                }
                for epoch in 0..2 {
                    for val in [1, 2] {
                        v.push(Op::Secret { g, epoch, val });
                    }
                }
            }
            v.push(Op::Relays { g: 2, set: 1 });
            v.push(Op::Secret { g: 2, epoch: 0, val: 1 });
        }
        "messages" => {
            v.push(Op::SaveGroup { g: 0, nostr: 0, name: 0, epoch: 0, active: true });
            v.push(Op::SaveGroup { g: 1, nostr: 1, name: 0, epoch: 0, active: true });
            for g in 0..g_n {
                for id in 0..3u8 {
                    for created in 0..2 {
                        for processed in 0..2 {
                            if !big && g == 1 && (id > 0 || created != processed) {
                                continue;
                            }
                            v.push(Op::Msg { g, id, created, processed, epoch: Some(id % 3), state: 0, tag: 0 });
                        }
                    }
                }
                v.push(Op::Msg { g, id: 0, created: 0, processed: 0, epoch: None, state: 1, tag: 1 });
                v.push(Op::Msg { g, id: 1, created: 1, processed: 0, epoch: Some(2), state: 0, tag: 2 });
                // a second and third carrier of the same tag content: one with an epoch and one (id 0 above) without, in either
                // insertion and key order, so that "first match" and "first match that has an epoch" differ (seeded change C10-9)
                v.push(Op::Msg { g, id: 2, created: 1, processed: 1, epoch: Some(1), state: 0, tag: 1 });
                if big || g == 0 {
                    v.push(Op::Msg { g, id: 1, created: 0, processed: 1, epoch: None, state: 0, tag: 1 });
                }
                // messages in other states than Processed that carry an epoch: an own unconfirmed one, a deleted one
                v.push(Op::Msg { g, id: 2, created: 0, processed: 0, epoch: Some(2), state: 1, tag: 0 });
                if big || g == 0 {
                    v.push(Op::Msg { g, id: 0, created: 0, processed: 0, epoch: Some(1), state: 2, tag: 0 });
                }
                v.push(Op::InvMsgs { g, epoch: 0 });
                v.push(Op::InvMsgs { g, epoch: 1 });
                for id in 0..3 {
                    v.push(Op::Pointer { g, id });
                }
            }
            v.push(Op::Msg { g: 2, id: 0, created: 0, processed: 0, epoch: Some(0), state: 0, tag: 0 });
        }
        "dedup" => {
            v.push(Op::SaveGroup { g: 0, nostr: 0, name: 0, epoch: 0, active: true });
            for w in 0..3u8 {
                for g in [None, Some(0u8), Some(1u8)] {
                    for epoch in [None, Some(0u8), Some(1u8)] {
                        for state in 0..if big { 6 } else { 3 } {
                            v.push(Op::Proc { w, g, epoch, state });
                        }
                    }
                }
                v.push(Op::Retry { w });
            }
            for g in 0..2 {
                v.push(Op::InvProc { g, epoch: 0 });
            }
            for id in 0..2 {
                for state in 0..3 {
                    v.push(Op::Welcome { id, state });
                }
                v.push(Op::ProcWelcome { w: id, failed: false });
                v.push(Op::ProcWelcome { w: id, failed: true });
            }
        }
        "snapshots" => {
            for g in 0..g_n {
                v.push(Op::SaveGroup { g, nostr: g, name: 0, epoch: 0, active: true });
                v.push(Op::SaveGroup { g, nostr: g, name: 1, epoch: 1, active: true });
                v.push(Op::Relays { g, set: 1 });
                v.push(Op::Relays { g, set: 3 });
                v.push(Op::Secret { g, epoch: 0, val: 1 });
                v.push(Op::Secret { g, epoch: 1, val: 2 });
                v.push(Op::MlsState { g, val: 1 });
                v.push(Op::MlsState { g, val: 2 });
                v.push(Op::MlsProposal { g, r: 0, val: 1 });
                v.push(Op::MlsLeaf { g, val: 1 });
                v.push(Op::MlsEpochKeys { g, epoch: 0, leaf: 0, val: 1 });
                v.push(Op::Msg { g, id: g, created: 0, processed: 0, epoch: Some(1), state: 0, tag: 0 });
                v.push(Op::Proc { w: g, g: Some(g), epoch: Some(1), state: 0 });
                for name in 0..2 {
                    v.push(Op::SnapCreate { g, name });
                    v.push(Op::SnapRollback { g, name });
                    v.push(Op::SnapRelease { g, name });
                }
            }
            v.push(Op::SaveGroup { g: 0, nostr: 2, name: 0, epoch: 0, active: true });
            v.push(Op::MlsKeyPackage { r: 0, val: 1 });
            v.push(Op::MlsSigKey { k: 0, val: 1 });
            v.push(Op::MlsEncKey { k: 0, val: 1 });
            v.push(Op::MlsPsk { k: 0, val: 1 });
            v.push(Op::Welcome { id: 0, state: 0 });
            v.push(Op::SnapPrune { all: true });
            v.push(Op::SnapPrune { all: false });
            if big {
                v.push(Op::MlsContext { g: 0, val: 1 });
                v.push(Op::MlsClearProposals { g: 0 });
                v.push(Op::MlsProposal { g: 0, r: 1, val: 2 });
                v.push(Op::MlsLeaf { g: 0, val: 2 });
                v.push(Op::MlsEpochKeys { g: 0, epoch: 1, leaf: 1, val: 2 });
            }
        }
        _ => panic!("unknown alphabet"),
    }
    (v, Pools { groups: 3, nostr: 3, msgs: 3, wrappers: 3, welcomes: 2 })
}

// ---------------------------------------------------------------------------------------
// the search
// ---------------------------------------------------------------------------------------

pub struct Divergence {
    pub seq: Vec<Op>,
    pub what: String,
    pub query: String,
    pub memory: String,
    pub sqlite: String,
    pub model: String,
}

/// Which findings of a divergence belong to which property
pub type Classify<'a> = dyn Fn(&Divergence, &mut Report) + Sync + 'a;

pub(crate) fn fresh_sqlite() -> MdkSqliteStorage {
    MdkSqliteStorage::verif_new_in_memory().expect("sqlite in-memory")
}

thread_local! {
    /// one in-memory database per worker thread, emptied between sequences (creating a new one per
    /// sequence makes 16 threads fight over the kernel's address-space lock)
    static SQL: MdkSqliteStorage = fresh_sqlite();
}

pub(crate) fn reset_sqlite(s: &MdkSqliteStorage) {
    s.verif_with_connection(|conn| {
        conn.execute_batch(
            "DELETE FROM group_state_snapshots; DELETE FROM messages; DELETE FROM group_relays; DELETE FROM group_exporter_secrets; DELETE FROM groups;
             DELETE FROM processed_messages; DELETE FROM welcomes; DELETE FROM processed_welcomes;
             DELETE FROM openmls_group_data; DELETE FROM openmls_proposals; DELETE FROM openmls_own_leaf_nodes; DELETE FROM openmls_key_packages;
             DELETE FROM openmls_psks; DELETE FROM openmls_signature_keys; DELETE FROM openmls_encryption_keys; DELETE FROM openmls_epoch_key_pairs;
             DELETE FROM sqlite_sequence;",
        )
        .expect("reset sqlite");
    });
}

/// run one sequence on fresh backends and the model; compare after every step. Returns the first divergence.
pub fn run_sequence(seq: &[Op], pools: &Pools, frame_check: bool) -> (Option<Divergence>, Model, u64) {
    SQL.with(|sql| {
        reset_sqlite(sql);
        run_sequence_on(seq, pools, frame_check, sql)
    })
}

fn run_sequence_on(seq: &[Op], pools: &Pools, frame_check: bool, sql: &MdkSqliteStorage) -> (Option<Divergence>, Model, u64) {
    // same code, smaller LRU capacity than the default 1000: the pools never hold more than a dozen entries,
    // and the big default capacity makes every fresh store a 200 KB mmap
    let mem = MdkMemoryStorage::with_cache_size(std::num::NonZeroUsize::new(64).unwrap());
    let mut model = Model::default();
    let mut evals = 0u64;
    for (k, op) in seq.iter().enumerate() {
        if !model.in_contract(op) {
            return (Some(Divergence { seq: seq[..=k].to_vec(), what: "out-of-contract".into(), query: String::new(), memory: String::new(), sqlite: String::new(), model: String::new() }), model, evals);
        }
        let before = if frame_check { Some((reads(&mem, pools), reads(sql, pools))) } else { None };
        let rm = apply(&mem, op);
        let rs = apply(sql, op);
        let ro = model.apply(op);
        evals += 1;
        let prefix = seq[..=k].to_vec();
        if !agrees(&ro, &rm) || !agrees(&ro, &rs) {
            return (Some(Divergence { seq: prefix, what: "return-value".into(), query: format!("{op:?}"), memory: rm, sqlite: rs, model: ro }), model, evals);
        }
        // only the last step needs the full read comparison when the prefix was checked by a shorter sequence
        if k + 1 == seq.len() {
            let am = reads(&mem, pools);
            let asq = reads(sql, pools);
            let ao = model.reads(pools);
            evals += ao.len() as u64;
            for i in 0..ao.len() {
                if !agrees(&ao[i].1, &am[i].1) || !agrees(&ao[i].1, &asq[i].1) {
                    return (Some(Divergence { seq: prefix, what: "read".into(), query: ao[i].0.clone(), memory: am[i].1.clone(), sqlite: asq[i].1.clone(), model: ao[i].1.clone() }), model, evals);
                }
            }
            let _ = before;
        }
    }
    (None, model, evals)
}

/// Breadth-first over reference-model states; every frontier state is rebuilt on fresh backends by replay.
/// a non-initial start state: both groups exist and hold something of every kind
pub fn base_prefix() -> Vec<Op> {
    vec![
        Op::SaveGroup { g: 0, nostr: 0, name: 0, epoch: 0, active: true },
        Op::SaveGroup { g: 1, nostr: 1, name: 0, epoch: 0, active: true },
        Op::Relays { g: 0, set: 1 },
        Op::Secret { g: 0, epoch: 0, val: 1 },
        Op::Msg { g: 0, id: 2, created: 1, processed: 1, epoch: Some(0), state: 0, tag: 0 },
        Op::MlsState { g: 0, val: 1 },
        Op::MlsState { g: 1, val: 1 },
    ]
}

pub fn search(kind: &str, depth: usize, dedup_from: usize, big: bool, rep: &mut Report, classify: &Classify<'_>) {
    search_from(kind, vec![], depth, dedup_from, big, rep, classify)
}

pub fn search_from(kind: &str, prefix: Vec<Op>, depth: usize, dedup_from: usize, big: bool, rep: &mut Report, classify: &Classify<'_>) {
    let (alpha, pools) = alphabet(kind, big);
    let mut frontier: Vec<Vec<Op>> = vec![prefix.clone()];
    let mut seen: HashSet<u64> = HashSet::new();
    let mut total_seq = 0u64;
    // thorough searches carry a wall-clock budget each (levels below the one that was cut are complete; the cut is reported)
    let wall_cap = std::env::var("VERIF_WALL_CAP_S").ok().and_then(|s| s.parse::<u64>().ok()).or(if big { Some(300) } else { None });
    let start = std::time::Instant::now();
    for d in 1..=depth {
        let mut cands: Vec<Vec<Op>> = Vec::with_capacity(frontier.len() * alpha.len());
        for f in &frontier {
            for op in &alpha {
                let mut s = f.clone();
                s.push(op.clone());
                cands.push(s);
            }
        }
        // run all candidates of this level in parallel
        let next_idx = std::sync::atomic::AtomicUsize::new(0);
        let results: std::sync::Mutex<Vec<(usize, Option<Divergence>, u64, u64)>> = std::sync::Mutex::new(Vec::new());
        let capped = std::sync::atomic::AtomicBool::new(false);
        std::thread::scope(|sc| {
            for _ in 0..crate::e1::threads() {
                sc.spawn(|| {
                    let mut local = Vec::new();
                    loop {
                        let i = next_idx.fetch_add(1, std::sync::atomic::Ordering::Relaxed);
                        if i >= cands.len() {
                            break;
                        }
                        if let Some(c) = wall_cap {
                            if start.elapsed().as_secs() > c {
                                capped.store(true, std::sync::atomic::Ordering::Relaxed);
                                break;
                            }
                        }
                        let (dv, model, ev) = run_sequence(&cands[i], &pools, false);
                        local.push((i, dv, model.canon(), ev));
                    }
                    results.lock().unwrap().extend(local);
                });
            }
        });
        let mut res = results.into_inner().unwrap();
        res.sort_by_key(|x| x.0);
        let mut next: Vec<Vec<Op>> = Vec::new();
        for (i, dv, canon, ev) in res {
            total_seq += 1;
            rep.evaluations += ev;
            rep.transitions += 1;
            match dv {
                Some(dv) if dv.what == "out-of-contract" => {
                    rep.add_count("sequences_outside_contract_not_run", 1);
                }
                Some(dv) => classify(&dv, rep),
                None => {
                    // sequences that diverged are not extended (everything after is noise)
                    let fresh = seen.insert(canon);
                    if fresh {
                        rep.distinct.insert(canon);
                    }
                    if d < dedup_from || fresh {
                        next.push(cands[i].clone());
                    }
                }
            }
        }
        if capped.load(std::sync::atomic::Ordering::Relaxed) {
            rep.exhaustive = false;
            rep.add_count(&format!("{kind}_capped_at_depth"), d as u64);
            break;
        }
        rep.add_count(&format!("{kind}_from{}_depth{d}_sequences", prefix.len()), cands.len() as u64);
        frontier = next;
    }
    rep.states += seen.len() as u64;
    rep.add_count(&format!("{kind}_sequences"), total_seq);
    rep.add_count(&format!("{kind}_alphabet"), alpha.len() as u64);
}

pub fn seq_labels(seq: &[Op]) -> Vec<String> {
    seq.iter().map(|o| format!("{o:?}")).collect()
}

/// shrink a failing sequence: drop operations while the same query still diverges in the same way
pub fn minimise(dv: &Divergence, pools: &Pools) -> Vec<Op> {
    let same = |seq: &[Op]| -> bool {
        match run_sequence(seq, pools, false).0 {
            Some(d2) => d2.seq.len() == seq.len() && d2.what == dv.what && d2.query == dv.query,
            None => false,
        }
    };
    let mut cur = dv.seq.clone();
    loop {
        let mut changed = false;
        let mut i = 0;
        while i + 1 < cur.len() {
            let mut cand = cur.clone();
            cand.remove(i);
            if same(&cand) {
                cur = cand;
                changed = true;
                continue;
            }
            i += 1;
        }
        if !changed {
            break;
        }
    }
    cur
}

pub fn op_class(o: &Op) -> String {
    let d = format!("{o:?}");
    d.split(|c: char| c == ' ' || c == '{').next().unwrap_or("?").to_string()
}

// ---------------------------------------------------------------------------------------
// property drivers
// ---------------------------------------------------------------------------------------

fn query_class(q: &str) -> String {
    q.split(|c: char| c == '(' || c == ' ').next().unwrap_or(q).to_string()
}

fn report_divergence(prop: &str, dv: &Divergence, pools: &Pools, rep: &mut Report) {
    let min = minimise(dv, pools);
    let side = match (agrees(&dv.model, &dv.memory), agrees(&dv.model, &dv.sqlite)) {
        (true, false) => "sqlite-differs-from-model-and-memory",
        (false, true) => "memory-differs-from-model-and-sqlite",
        (false, false) if dv.memory == dv.sqlite => "both-backends-differ-from-model",
        _ => "all-three-differ",
    };
    // operation classes of the minimal history, as a set; plain writes are not told apart
    let classes: std::collections::BTreeSet<String> = min
        .iter()
        .map(|o| {
            let c = op_class(o);
            if c.starts_with("Snap") || c == "Msg" || c == "Proc" || c == "Welcome" || c == "ProcWelcome" || c == "Pointer" || c.starts_with("Inv") || c == "Retry" { c } else { "write".to_string() }
        })
        .collect();
    let sig = format!("{prop}|{}|{}|{side}|{}", dv.what, query_class(&dv.query), classes.into_iter().collect::<Vec<_>>().join("+"));
    rep.finding(
        sig,
        format!("after [{}] the {} `{}` answers memory={} sqlite={} model={}", seq_labels(&min).join(" ; "), dv.what, dv.query, trunc(&dv.memory), trunc(&dv.sqlite), trunc(&dv.model)),
        json!({"engine": "storex", "sequence": min, "query": dv.query, "memory": dv.memory, "sqlite": dv.sqlite, "model": dv.model}),
    );
}

fn trunc(s: &str) -> String {
    if s.len() > 160 { format!("{}…", &s[..160]) } else { s.to_string() }
}

pub fn check_c10(rep: &mut Report, thorough: bool) {
    let depth = if thorough { 4 } else { 3 };
    for kind in ["groups", "messages", "dedup", "snapshots"] {
        let (_, pools) = alphabet(kind, thorough);
        let d = if kind == "dedup" && !thorough { 2 } else { depth };
        // quick merges sequences that reach the same reference-model state from depth 1 on; thorough only from depth 3
        search(kind, d, if thorough { 3 } else { 1 }, thorough, rep, &|dv, rep| report_divergence("C10", dv, &pools, rep));
        // the same search started from a populated store (two groups with content)
        search_from(kind, base_prefix(), if thorough { d } else { d.min(3) }, if thorough { 3 } else { 1 }, thorough, rep, &|dv, rep| report_divergence("C10", dv, &pools, rep));
    }
    sample_seq(rep, "messages");
}

pub fn check_c09(rep: &mut Report, thorough: bool) {
    let (_, pools) = alphabet("snapshots", thorough);
    let classify = |dv: &Divergence, rep: &mut Report| {
        let min = minimise(dv, &pools);
        if min.iter().any(|o| matches!(o, Op::SnapCreate { .. } | Op::SnapRollback { .. } | Op::SnapRelease { .. } | Op::SnapPrune { .. })) {
            report_divergence("C09", dv, &pools, rep);
        } else {
            rep.add_count("divergences_without_snapshot_operation_left_to_C10", 1);
        }
    };
    search_from("snapshots", base_prefix(), if thorough { 4 } else { 3 }, if thorough { 3 } else { 1 }, thorough, rep, &classify);
    search("snapshots", if thorough { 5 } else { 3 }, if thorough { 3 } else { 1 }, thorough, rep, &|dv, rep| {
        // only histories in which a snapshot operation is involved belong to this property
        let min = minimise(dv, &pools);
        if min.iter().any(|o| matches!(o, Op::SnapCreate { .. } | Op::SnapRollback { .. } | Op::SnapRelease { .. } | Op::SnapPrune { .. })) {
            report_divergence("C09", dv, &pools, rep);
        } else {
            rep.add_count("divergences_without_snapshot_operation_left_to_C10", 1);
        }
    });
    snapshot_sandwiches(rep, &pools, thorough);
    sample_seq(rep, "snapshots");
}

/// Histories that the model-state search cannot tell apart from shorter ones (the model state after taking a
/// snapshot twice under one name is the state after taking it once), but in which a backend may keep hidden
/// rows: from the populated base state, every  a ; snapshot(g0,n1) ; b ; snapshot(g0,n2) ; c ; rollback(g0,n3)
/// with a, b, c single writes (or nothing) on either group and n1, n2, n3 in {0,1}. No deduplication.
fn snapshot_sandwiches(rep: &mut Report, pools: &Pools, thorough: bool) {
    let mut writes: Vec<Option<Op>> = vec![None];
    for g in 0..2u8 {
        for op in [
            Op::SaveGroup { g, nostr: g, name: 1, epoch: 1, active: true },
            Op::Relays { g, set: 3 },
            Op::Relays { g, set: 2 },
            Op::Relays { g, set: 0 },
            Op::Secret { g, epoch: 1, val: 2 },
            Op::MlsState { g, val: 2 },
            Op::MlsProposal { g, r: 0, val: 1 },
            Op::MlsClearProposals { g },
            Op::MlsLeaf { g, val: 1 },
            Op::MlsEpochKeys { g, epoch: 0, leaf: 0, val: 1 },
        ] {
            if g == 0 || thorough || matches!(op, Op::Relays { .. } | Op::SaveGroup { .. }) {
                writes.push(Some(op));
            }
        }
    }
    let mut seqs: Vec<Vec<Op>> = Vec::new();
    for a in &writes {
        for b in &writes {
            for c in &writes {
                for names in 0..8u8 {
                    let (n1, n2, n3) = (names & 1, (names >> 1) & 1, (names >> 2) & 1);
                    let mut q = base_prefix();
                    // the base gets a proposal and a leaf so that removing them is possible
                    q.push(Op::MlsProposal { g: 0, r: 1, val: 1 });
                    q.extend(a.clone());
                    q.push(Op::SnapCreate { g: 0, name: n1 });
                    q.extend(b.clone());
                    q.push(Op::SnapCreate { g: 0, name: n2 });
                    q.extend(c.clone());
                    q.push(Op::SnapRollback { g: 0, name: n3 });
                    seqs.push(q);
                }
            }
        }
    }
    let idx = std::sync::atomic::AtomicUsize::new(0);
    let found: std::sync::Mutex<Vec<Divergence>> = std::sync::Mutex::new(Vec::new());
    let evals = std::sync::atomic::AtomicU64::new(0);
    std::thread::scope(|sc| {
        for _ in 0..crate::e1::threads() {
            sc.spawn(|| loop {
                let i = idx.fetch_add(1, std::sync::atomic::Ordering::Relaxed);
                if i >= seqs.len() {
                    break;
                }
                let (dv, _, ev) = run_sequence(&seqs[i], pools, false);
                evals.fetch_add(ev, std::sync::atomic::Ordering::Relaxed);
                if let Some(dv) = dv {
                    if dv.what != "out-of-contract" {
                        found.lock().unwrap().push(dv);
                    }
                }
            });
        }
    });
    rep.states += seqs.len() as u64;
    rep.transitions += seqs.iter().map(|s| s.len() as u64).sum::<u64>();
    rep.evaluations += evals.load(std::sync::atomic::Ordering::Relaxed);
    rep.add_count("snapshot_sandwich_sequences", seqs.len() as u64);
    for dv in found.into_inner().unwrap() {
        report_divergence("C09", &dv, pools, rep);
    }
}

pub fn check_c18(rep: &mut Report, thorough: bool) {
    let (_, pools) = alphabet("messages", thorough);
    let classify18 = |dv: &Divergence, rep: &mut Report| {
        let q = query_class(&dv.query);
        if q == "messages" || q == "last_message" || q == "group" || q == "by_nostr" || q == "all_groups" || matches!(dv.seq.last(), Some(Op::Pointer { .. })) {
            report_divergence("C18", dv, &pools, rep);
        }
    };
    search_from("messages", base_prefix(), 3, if thorough { 3 } else { 1 }, thorough, rep, &classify18);
    search("messages", if thorough { 4 } else { 3 }, if thorough { 3 } else { 1 }, thorough, rep, &|dv, rep| {
        let q = query_class(&dv.query);
        if q == "messages" || q == "last_message" || q == "group" || q == "by_nostr" || q == "all_groups" || matches!(dv.seq.last(), Some(Op::Pointer { .. })) {
            report_divergence("C18", dv, &pools, rep);
        } else {
            rep.add_count("divergences_outside_listing_left_to_C10", 1);
        }
    });
    pointer_sequences(rep, if thorough { 5 } else { 4 });
    sample_seq(rep, "messages");
}

fn sample_seq(rep: &mut Report, kind: &str) {
    let (a, _) = alphabet(kind, false);
    rep.sample(json!({"alphabet": kind, "size": a.len(), "example_sequence": a.iter().take(3).map(|o| format!("{o:?}")).collect::<Vec<_>>()}));
}

/// C18 pointer: every sequence of "store a message the way mdk-core does (save, then
/// update_last_message_if_newer + save_group)" and "invalidate after epoch" over 3 ids with colliding
/// timestamps; the pointer must designate the head of the non-invalidated messages in the default order.
pub fn pointer_sequences(rep: &mut Report, depth: usize) {
    #[derive(Clone, Debug, Serialize)]
    enum P {
        Store { id: u8, processed: u8, epoch: u8 },
        Invalidate { epoch: u8 },
    }
    // created_at is a function of the id (an id commits to its content): ids 0,1 tie on created_at
    let created = |id: u8| if id == 2 { 1 } else { 0 };
    let mut alpha = Vec::new();
    for id in 0..3u8 {
        for processed in 0..2u8 {
            for epoch in 0..2u8 {
                alpha.push(P::Store { id, processed, epoch });
            }
        }
    }
    let _ = P::Invalidate { epoch: 0 }; // invalidation + pointer is judged on mdk-core histories (E1), where a rollback restores the record first
    let mut seqs: Vec<Vec<P>> = vec![vec![]];
    let mut total = 0u64;
    for _ in 0..depth {
        let mut next = Vec::new();
        for s in &seqs {
            for a in &alpha {
                let mut t = s.clone();
                t.push(a.clone());
                next.push(t);
            }
        }
        seqs = next;
        // run this level
        let idx = std::sync::atomic::AtomicUsize::new(0);
        let found: std::sync::Mutex<Vec<(Vec<P>, String, String, String)>> = std::sync::Mutex::new(Vec::new());
        std::thread::scope(|sc| {
            for _ in 0..crate::e1::threads() {
                sc.spawn(|| loop {
                    let i = idx.fetch_add(1, std::sync::atomic::Ordering::Relaxed);
                    if i >= seqs.len() {
                        break;
                    }
                    for backend in ["memory", "sqlite"] {
                        let res = if backend == "memory" { run_pointer(&MdkMemoryStorage::default(), &seqs[i], &created) } else { run_pointer(&fresh_sqlite(), &seqs[i], &created) };
                        if let Some((got, want)) = res {
                            found.lock().unwrap().push((seqs[i].clone(), backend.to_string(), got, want));
                        }
                    }
                });
            }
        });
        total += seqs.len() as u64;
        for (s, backend, got, want) in found.into_inner().unwrap() {
            let classes: Vec<String> = s.iter().map(|p| match p { P::Store { .. } => "store", P::Invalidate { .. } => "invalidate" }.to_string()).collect();
            let kind = if s.iter().any(|p| matches!(p, P::Invalidate { .. })) { "after-invalidation" } else { "without-invalidation" };
            rep.finding(format!("C18|pointer-not-head-of-valid-messages|{kind}|{}", if classes.len() <= 3 { classes.join(";") } else { format!("len{}", classes.len()) }), format!("{backend}: after {s:?} the last-message pointer is {got}, the first valid message of the default order is {want}"), json!({"engine": "storex-pointer", "sequence": s, "backend": backend, "pointer": got, "head": want}));
        }
        // do not extend sequences (all are extended; the space is small)
    }
    rep.evaluations += total * 2;
    rep.transitions += total * 2;
    rep.add_count("pointer_sequences", total);

    fn run_pointer<S: MdkStorageProvider, PP: std::fmt::Debug>(s: &S, seq: &[PP], created: &dyn Fn(u8) -> u8) -> Option<(String, String)>
    where
        PP: serde::Serialize,
    {
        let _ = s.save_group(mk_group(0, 0, 0, 0, true));
        let mut first_processed: BTreeMap<u8, u8> = BTreeMap::new();
        for p in seq {
            let v = serde_json::to_value(p).unwrap();
            if let Some(st) = v.get("Store") {
                let id = st["id"].as_u64().unwrap() as u8;
                // storing an id again (own echo, re-delivery) never moves its processed_at backwards: keep the first one
                let processed = *first_processed.entry(id).or_insert(st["processed"].as_u64().unwrap() as u8);
                let epoch = st["epoch"].as_u64().unwrap() as u8;
                let m = mk_msg(0, id, created(id), processed, Some(epoch), 0, 0);
                let _ = s.save_message(m.clone());
                if let Ok(Some(mut g)) = s.find_group_by_mls_group_id(&gid(0)) {
                    if g.update_last_message_if_newer(&m) {
                        let _ = s.save_group(g);
                    }
                }
            } else if let Some(iv) = v.get("Invalidate") {
                let _ = s.invalidate_messages_after_epoch(&gid(0), iv["epoch"].as_u64().unwrap());
            }
        }
        let g = s.find_group_by_mls_group_id(&gid(0)).ok().flatten()?;
        let all = s.messages(&gid(0), Some(Pagination::new(Some(100), Some(0)))).ok()?;
        let head = all.iter().find(|m| m.state != MessageState::EpochInvalidated).map(|m| m.id.to_hex());
        let got = g.last_message_id.map(|i| i.to_hex());
        if got != head { Some((format!("{got:?}"), format!("{head:?}"))) } else { None }
    }
}
