//! Scenario families (fork trees), enumerated from small alphabets.

use crate::lab::Cfg;
use crate::scenario::*;

pub fn base(name: &str, members: &[&str], admins: &[&str], outsiders: &[&str], root: Vec<Act>) -> Scenario {
    Scenario {
        name: name.into(),
        members: members.iter().map(|s| s.to_string()).collect(),
        admins: admins.iter().map(|s| s.to_string()).collect(),
        outsiders: outsiders.iter().map(|s| s.to_string()).collect(),
        cfg: Cfg::default(),
        root: Node { acts: root },
        same_identity: vec![],
    }
}

pub fn with_retention(mut s: Scenario, r: usize) -> Scenario {
    s.cfg.epoch_snapshot_retention = r;
    s.name = format!("{}-ret{r}", s.name);
    s
}

fn rename(a: &str, n: &str, ts: u64) -> Act {
    act(a, ActKind::Rename(n.into()), ts)
}
fn msg(a: &str, c: &str) -> Act {
    act(a, ActKind::Msg(c.into()), 5)
}

/// the action alphabet for one committer (simplest first)
pub fn commit_alphabet(actor: &str, is_admin: bool) -> Vec<ActKind> {
    let mut v = vec![ActKind::SelfUpdate];
    if is_admin {
        v.push(ActKind::Rename(format!("by-{actor}")));
        v.push(ActKind::Relay(format!("wss://{}.example", actor.to_lowercase())));
        v.push(ActKind::RotateId(actor.as_bytes()[0]));
        v.push(ActKind::Add("D".into()));
        v.push(ActKind::Remove("C".into()));
    }
    v
}

/// C01 quick: 12 scenarios, pools <= 5
pub fn c01_quick() -> Vec<(Scenario, bool)> {
    let m = ["A", "B", "C", "Z"];
    let ad = ["A", "B"];
    let mut v: Vec<(Scenario, bool)> = Vec::new();
    // two admins race, ordered by timestamp
    v.push((base("race2-ts", &m, &ad, &[], vec![rename("A", "a", 10), rename("B", "b", 20)]), true));
    // full tie on timestamp, id order both ways
    v.push((base("race2-tie-a", &m, &ad, &[], vec![rename("A", "a", 10).nib(1), rename("B", "b", 10).nib(9)]), true));
    v.push((base("race2-tie-b", &m, &ad, &[], vec![rename("A", "a", 10).nib(9), rename("B", "b", 10).nib(1)]), true));
    // non-admin self-update against an admin rename, both orders
    v.push((base("race-su-rename", &m, &ad, &[], vec![act("C", ActKind::SelfUpdate, 10), rename("A", "a", 20)]), true));
    v.push((base("race-rename-su", &m, &ad, &[], vec![act("C", ActKind::SelfUpdate, 20), rename("A", "a", 10)]), true));
    // add vs rename
    v.push((base("race-add-rename", &m, &ad, &["D"], vec![act("A", ActKind::Add("D".into()), 10), rename("B", "b", 20)]), true));
    // remove wins / remove loses
    v.push((base("race-remove-wins", &m, &ad, &[], vec![act("A", ActKind::Remove("C".into()), 10), rename("B", "b", 20)]), true));
    v.push((base("race-remove-loses", &m, &ad, &[], vec![act("A", ActKind::Remove("C".into()), 20), rename("B", "b", 10)]), true));
    // three-way
    v.push((base("race3", &m, &ad, &[], vec![rename("A", "a", 20), rename("B", "b", 10), act("C", ActKind::SelfUpdate, 30)]), true));
    // chain of forks: the loser keeps working on its branch
    v.push((
        base(
            "chain2",
            &m,
            &ad,
            &[],
            vec![rename("A", "a1", 10).then(vec![rename("A", "a2", 30)]), rename("B", "b1", 20).then(vec![rename("B", "b2", 40)])],
        ),
        true,
    ));
    // fork two deep, then the winning branch goes on (rollback of two epochs, traffic at the re-reached epoch)
    v.push((
        base(
            "chain2-winner3",
            &m,
            &ad,
            &[],
            vec![rename("A", "a1", 10).then(vec![rename("A", "a2", 30).then(vec![rename("A", "a3", 50)])]), rename("B", "b1", 20).then(vec![rename("B", "b2", 40)])],
        ),
        true,
    ));
    // a message next to a race
    v.push((base("race2-msg", &m, &ad, &[], vec![msg("C", "hello"), rename("A", "a", 10), rename("B", "b", 20)]), true));
    // retention boundary: fork two deep with retention 1 is beyond what must converge
    v.push((
        with_retention(
            base(
                "chain2",
                &m,
                &ad,
                &[],
                vec![rename("A", "a1", 10).then(vec![rename("A", "a2", 30)]), rename("B", "b1", 20).then(vec![rename("B", "b2", 40)])],
            ),
            1,
        ),
        false,
    ));
    v
}

/// C02 quick: message scenarios, pools <= 5
pub fn c02_quick() -> Vec<(Scenario, bool)> {
    let m = ["A", "B", "C", "Z"];
    let ad = ["A", "B"];
    let mut v: Vec<(Scenario, bool)> = Vec::new();
    v.push((base("msg-bystander-race", &m, &ad, &[], vec![msg("C", "m-c0"), rename("A", "a", 10), rename("B", "b", 20)]), true));
    v.push((base("msg-committer-race", &m, &ad, &[], vec![msg("A", "m-a0"), rename("A", "a", 10), rename("B", "b", 20)]), true));
    v.push((base("msg-on-loser-branch", &m, &ad, &[], vec![rename("A", "a", 10), rename("B", "b", 20).then(vec![msg("B", "m-b1")])]), true));
    v.push((base("msg-on-winner-branch", &m, &ad, &[], vec![rename("A", "a", 10).then(vec![msg("C", "m-c1")]), rename("B", "b", 20)]), true));
    v.push((base("msg-two-same-sender", &m, &ad, &[], vec![msg("C", "m-c0"), msg("C", "m-c0b"), rename("A", "a", 10)]), true));
    v.push((base("msg-across-commit", &m, &ad, &[], vec![msg("C", "m-c0"), rename("A", "a", 10).then(vec![msg("C", "m-c1")])]), true));
    // exactly at the past-epoch window (5) and a tight configured window
    v.push(late_message(5, 5));
    v.push(late_message(2, 2));
    // the two windows are independent settings: a message three epochs late, inside the past-epoch window (5), with a snapshot
    // retention of 1 (seeded change C02-11: a joiner's past-epoch window clipped to the retention)
    v.push((with_retention(late_message(3, 5).0, 1), true));
    v.push(ratchet_window(3, 4, 4));
    v
}

fn is_admin(ad: &[&str], who: &str) -> bool {
    ad.contains(&who)
}

/// timestamp / id-order patterns for k competitors: strict orders + the full tie in every id order (k<=2),
/// for k=3 all strict orders plus full tie in two id orders
pub fn orderings(k: usize) -> Vec<Vec<(u64, Option<u8>)>> {
    fn perms(n: usize) -> Vec<Vec<usize>> {
        if n == 1 {
            return vec![vec![0]];
        }
        let mut out = vec![];
        for p in perms(n - 1) {
            for i in 0..=p.len() {
                let mut q = p.clone();
                q.insert(i, n - 1);
                out.push(q);
            }
        }
        out
    }
    let mut v = Vec::new();
    for p in perms(k) {
        // strict by timestamp, ids left random
        v.push(p.iter().map(|r| (10 + 10 * *r as u64, None)).collect());
    }
    for p in perms(k).into_iter().take(if k <= 2 { 2 } else { 2 }) {
        // full tie on timestamp, id order by nibble
        v.push(p.iter().map(|r| (10u64, Some(1 + 4 * *r as u8))).collect());
    }
    if k == 3 {
        // partial ties: two share the earliest timestamp
        v.push(vec![(10, Some(2)), (10, Some(9)), (20, None)]);
        v.push(vec![(10, Some(9)), (10, Some(2)), (20, None)]);
        v.push(vec![(20, None), (10, Some(9)), (10, Some(2))]);
    }
    v
}

/// every set of `k` concurrent commits by distinct actors on the root state, every ordering
pub fn one_round(members: &[&str], admins: &[&str], k: usize, with_msg: bool) -> Vec<(Scenario, bool)> {
    let actors: Vec<&str> = members.iter().copied().filter(|m| *m != "Z").collect();
    let mut out = Vec::new();
    // choose k distinct actors (combinations), then one action each
    let n = actors.len();
    let mut idx: Vec<usize> = (0..k).collect();
    if k > n {
        return out;
    }
    loop {
        let chosen: Vec<&str> = idx.iter().map(|i| actors[*i]).collect();
        let alph: Vec<Vec<ActKind>> = chosen.iter().map(|a| commit_alphabet(a, is_admin(admins, a)).into_iter().filter(|k| match k { ActKind::Remove(x) => members.contains(&x.as_str()) && x != a, _ => true }).collect()).collect();
        let mut pick = vec![0usize; k];
        'outer: loop {
            let kinds: Vec<ActKind> = pick.iter().enumerate().map(|(j, p)| alph[j][*p].clone()).collect();
            // at most one Add(D) (one key package) per scenario
            let adds = kinds.iter().filter(|k| matches!(k, ActKind::Add(_))).count();
            if adds <= 1 {
                for (oi, ord) in orderings(k).into_iter().enumerate() {
                    let mut acts: Vec<Act> = Vec::new();
                    if with_msg {
                        acts.push(act("Z", ActKind::Msg("m-z0".into()), 5));
                    }
                    for j in 0..k {
                        let mut a = act(chosen[j], kinds[j].clone(), ord[j].0);
                        a.nib = ord[j].1;
                        acts.push(a);
                    }
                    let name = format!("r1-{}-{}-o{oi}{}", chosen.join(""), kinds.iter().map(|k| k.short()).collect::<Vec<_>>().join("+"), if with_msg { "-m" } else { "" });
                    out.push((base(&name, members, admins, &["D"], acts), true));
                }
            }
            // next pick
            let mut j = 0;
            loop {
                pick[j] += 1;
                if pick[j] < alph[j].len() {
                    break;
                }
                pick[j] = 0;
                j += 1;
                if j == k {
                    break 'outer;
                }
            }
        }
        // next combination
        let mut i = k;
        loop {
            if i == 0 {
                return out;
            }
            i -= 1;
            if idx[i] != i + n - k {
                break;
            }
            if i == 0 {
                return out;
            }
        }
        idx[i] += 1;
        for j in i + 1..k {
            idx[j] = idx[j - 1] + 1;
        }
    }
}

/// chains of forks: a race at the root, each branch continued by one more commit (optionally a third level)
pub fn chains(depth: usize, retention: usize) -> Vec<(Scenario, bool)> {
    let m = ["A", "B", "C", "Z"];
    let ad = ["A", "B"];
    let mut out = Vec::new();
    // who continues each branch: the committer itself or the other admin; C self-updates as a third voice
    let conts: Vec<(&str, ActKind)> = vec![("A", ActKind::Rename("x".into())), ("B", ActKind::Relay("wss://x.example".into())), ("C", ActKind::SelfUpdate)];
    for (wi, wc) in conts.iter().enumerate() {
        for (li, lc) in conts.iter().enumerate() {
            if wc.0 == lc.0 {
                // one client cannot author on two branches at once
                continue;
            }
            for order in 0..2 {
                let (tw, tl) = if order == 0 { (10, 20) } else { (20, 10) };
                let mut wbranch = act(wc.0, wc.1.clone(), 30);
                let mut lbranch = act(lc.0, lc.1.clone(), 40);
                if depth >= 3 {
                    wbranch = wbranch.then(vec![rename("A", "w3", 50)]);
                    lbranch = lbranch.then(vec![rename("B", "l3", 60)]);
                }
                let root = vec![rename("A", "a1", tw).then(vec![wbranch]), rename("B", "b1", tl).then(vec![lbranch])];
                let mut sc = base(&format!("chain{depth}-w{wi}-l{li}-o{order}"), &m, &ad, &[], root);
                sc = with_retention(sc, retention);
                // forks deeper than the retention need not converge
                let expect = depth <= retention;
                if single_author_paths(&sc) {
                    out.push((sc, expect));
                }
            }
        }
    }
    out
}

/// leave proposal with the admin's auto-commit racing another commit
pub fn leaves() -> Vec<(Scenario, bool)> {
    let m = ["A", "B", "C", "Z"];
    let ad = ["A", "B"];
    let mut out = Vec::new();
    for order in 0..2 {
        let (t1, t2) = if order == 0 { (10, 20) } else { (20, 10) };
        out.push((base(&format!("leave-autocommit-vs-rename-o{order}"), &m, &ad, &[], vec![act("C", ActKind::Leave, 5), act("A", ActKind::CommitLeave("C.leave0".into()), t1), rename("B", "b", t2)]), true));
    }
    out.push((base("leave-autocommit-only", &m, &ad, &[], vec![act("C", ActKind::Leave, 5), act("A", ActKind::CommitLeave("C.leave0".into()), 10)]), true));
    // two admins both auto-commit the same leave
    out.push((base("leave-two-autocommits", &m, &ad, &[], vec![act("C", ActKind::Leave, 5), act("A", ActKind::CommitLeave("C.leave0".into()), 10), act("B", ActKind::CommitLeave("C.leave0".into()), 20)]), true));
    out
}

/// C11: histories whose restart behaviour depends on what a call left uncommitted or unreleased
pub fn c11_extra() -> Vec<(Scenario, bool)> {
    vec![
        // the relay list is emptied, then the group goes on (everything written after the emptying must survive a restart)
        (base("relays-emptied-then-commit", &["A", "B", "Z"], &["A", "B"], &[], vec![act("A", ActKind::Relays(vec![]), 10).then(vec![rename("A", "after-emptying", 20).then(vec![msg("B", "later")])])]), true),
        // a rollback over two epochs, then a fresh race at the epoch reached again (restart anywhere in between)
        (
            base(
                "deep-rollback-then-race",
                &["A", "B", "C", "Z"],
                &["A", "B"],
                &[],
                vec![rename("A", "a1", 10).then(vec![rename("A", "a2", 30), act("C", ActKind::SelfUpdate, 40)]), rename("B", "b1", 20).then(vec![rename("B", "b2", 25)])],
            ),
            true,
        ),
    ]
}

/// a losing branch exactly as deep as the default snapshot retention (5): the winner for the fork epoch arrives when
/// the member is `depth` epochs further
pub fn deep_fork(depth: usize) -> Scenario {
    let mut node = rename("B", &format!("l{depth}"), 20 + 10 * depth as u64);
    for k in (1..depth).rev() {
        node = rename("B", &format!("l{k}"), 20 + 10 * k as u64).then(vec![node]);
    }
    base(&format!("deep-fork-{depth}"), &["A", "B", "Z"], &["A", "B"], &[], vec![rename("A", "winner", 10), node])
}

/// group sizes 2..6, one race
pub fn sizes() -> Vec<(Scenario, bool)> {
    let mut out = Vec::new();
    let all = ["A", "B", "C", "E", "F", "Z"];
    for n in 2..=6usize {
        let mut m: Vec<&str> = all[..n - 1].to_vec();
        m.push("Z");
        let ad: Vec<&str> = if n >= 3 { vec!["A", "B"] } else { vec!["A", "Z"] };
        let second = if n >= 3 { "B" } else { "Z" };
        for order in 0..2 {
            let (t1, t2) = if order == 0 { (10, 20) } else { (20, 10) };
            out.push((base(&format!("size{n}-o{order}"), &m, &ad, &[], vec![rename("A", "a", t1), rename(second, "b", t2)]), true));
        }
    }
    out
}

pub fn c01_thorough() -> Vec<(Scenario, bool)> {
    let m4 = ["A", "B", "C", "Z"];
    let mut v = c01_quick();
    v.extend(one_round(&m4, &["A", "B"], 2, false));
    v.extend(one_round(&m4, &["A"], 2, false));
    v.extend(one_round(&m4, &["A", "B", "C"], 2, false));
    v.extend(one_round(&m4, &["A", "B"], 2, true));
    v.extend(one_round(&m4, &["A", "B", "C"], 3, false));
    v.extend(chains(2, 5));
    v.extend(chains(2, 2));
    v.extend(chains(2, 1));
    v.extend(chains(3, 3));
    v.extend(chains(3, 2));
    v.extend(leaves());
    v.extend(sizes());
    v
}

/// a message at the root followed by a linear chain of `d` commits: delivered up to `d` epochs late
pub fn late_message(d: usize, max_past_epochs: usize) -> (Scenario, bool) {
    let m = ["A", "C", "Z"];
    let ad = ["A"];
    let mut chain: Option<Act> = None;
    for i in (0..d).rev() {
        let mut a = rename("A", &format!("n{i}"), 10 + 10 * i as u64);
        if let Some(c) = chain.take() {
            a = a.then(vec![c]);
        } else {
            a = a.then(vec![]);
        }
        chain = Some(a);
    }
    let mut root = vec![msg("C", "late-m0")];
    if let Some(c) = chain {
        root.push(c);
    }
    let mut sc = base(&format!("late-msg-d{d}-p{max_past_epochs}"), &m, &ad, &[], root);
    sc.cfg.max_past_epochs = max_past_epochs;
    (sc, true)
}

/// n messages of one sender with tight ratchet windows (every order stays inside the windows)
pub fn ratchet_window(n: usize, tolerance: u32, forward: u32) -> (Scenario, bool) {
    let m = ["A", "C", "Z"];
    let ad = ["A"];
    let mut root = Vec::new();
    for i in 0..n {
        root.push(msg("C", &format!("w-m{i}")));
    }
    let mut sc = base(&format!("ratchet-n{n}-t{tolerance}-f{forward}"), &m, &ad, &[], root);
    sc.cfg.out_of_order_tolerance = tolerance;
    sc.cfg.maximum_forward_distance = forward;
    (sc, true)
}

/// one sender, n messages in one epoch, a forward window much larger than the out-of-order tolerance: a receiver that
/// gets a later message first must still accept it (judged per delivery; which of the skipped ones may be lost
/// afterwards is the tolerance's business, so no end-state verdict is taken on these scenarios)
pub fn fwd_jump(n: usize, tolerance: u32, forward: u32) -> (Scenario, bool) {
    let (mut sc, _) = ratchet_window(n, tolerance, forward);
    sc.name = format!("fwdjump-n{n}-t{tolerance}-f{forward}");
    (sc, false)
}

pub fn c02_thorough() -> Vec<(Scenario, bool)> {
    let mut v = c02_quick();
    let m4 = ["A", "B", "C", "Z"];
    v.extend(one_round(&m4, &["A", "B"], 2, true));
    for (d, p) in [(1, 1), (2, 2), (3, 3), (4, 5), (5, 5), (5, 8)] {
        v.push(late_message(d, p));
    }
    // windows strictly larger than the number of messages, so every order is inside them whatever the
    // exact off-by-one convention of the ratchet is
    for (n, t, f) in [(3, 4, 1000), (3, 100, 4), (4, 5, 5), (3, 4, 4)] {
        v.push(ratchet_window(n, t, f));
    }
    // messages on both branches of chains
    for order in 0..2 {
        let (t1, t2) = if order == 0 { (10, 20) } else { (20, 10) };
        v.push((base(&format!("chain-msgs-o{order}"), &m4, &["A", "B"], &[], vec![msg("Z", "z0"), rename("A", "a1", t1).then(vec![msg("C", "c-on-a"), rename("A", "a2", 30)]), rename("B", "b1", t2).then(vec![msg("Z", "z-on-b")])]), true));
    }
    v
}

fn relays(a: &str, us: &[&str], ts: u64) -> Act {
    act(a, ActKind::Relays(us.iter().map(|s| s.to_string()).collect()), ts)
}

/// C08: every kind of group-data change, alone, chained and on a losing branch
pub fn c08_quick() -> Vec<(Scenario, bool)> {
    let m = ["A", "B", "C", "Z"];
    let ad = ["A", "B"];
    let mut v: Vec<(Scenario, bool)> = Vec::new();
    // relay set grows, then only shrinks, then becomes empty
    v.push((base("relays-grow-shrink", &m, &ad, &[], vec![relays("A", &["wss://r0.example", "wss://r1.example", "wss://r2.example"], 10).then(vec![relays("A", &["wss://r1.example"], 20).then(vec![relays("A", &[], 30)])])]), true));
    // image set, replaced, cleared
    // the image fields change one at a time: key only, then nonce only, then hash only
    v.push((base("image-fields-one-by-one", &m, &ad, &[], vec![act("A", ActKind::Image(Some(0x40)), 10).then(vec![act("A", ActKind::ImageParts(None, Some(0x77), None), 20).then(vec![act("B", ActKind::ImageParts(None, None, Some(0x78)), 30).then(vec![act("A", ActKind::ImageParts(Some(0x79), None, None), 40)])])])]), true));
    v.push((base("image-set-clear", &m, &ad, &[], vec![act("A", ActKind::Image(Some(0x40)), 10).then(vec![act("B", ActKind::Image(Some(0x50)), 20).then(vec![act("A", ActKind::Image(None), 30)])])]), true));
    // id rotation then more commits tagged with the new id, racing a rename tagged with the old one
    v.push((base("rotate-then-rename", &m, &ad, &[], vec![act("A", ActKind::RotateId(0xA1), 10).then(vec![rename("B", "after-rotate", 30)]), rename("B", "old-id-rename", 20)]), true));
    // rotation on the losing branch (rolled back)
    v.push((base("rotate-loses", &m, &ad, &[], vec![act("A", ActKind::RotateId(0xA2), 20).then(vec![rename("A", "on-rotated", 40)]), rename("B", "winner", 10).then(vec![act("B", ActKind::Describe("d2".into()), 30)])]), true));
    // admin set and description
    v.push((base("admins-describe", &m, &ad, &[], vec![act("A", ActKind::Admins(vec!["A".into(), "C".into()]), 10).then(vec![act("C", ActKind::Describe("by-new-admin".into()), 20)]), act("B", ActKind::Describe("by-old-admin".into()), 15)]), true));
    // the text fields at their boundary value: description set, cleared to the empty string, name cleared, description set again
    // (seeded change C08-9: a sync that skips an empty value keeps the old text in the stored record)
    v.push((base("text-set-clear", &m, &ad, &[], vec![act("A", ActKind::Describe("set".into()), 10).then(vec![act("B", ActKind::Describe(String::new()), 20).then(vec![rename("A", "", 30).then(vec![act("B", ActKind::Describe("again".into()), 40)])])])]), true));
    // non-admin self-update applied both ways, with a message
    v.push((base("selfupdate-msg", &m, &ad, &[], vec![msg("C", "c08-m"), act("C", ActKind::SelfUpdate, 10).then(vec![act("A", ActKind::SelfUpdate, 20)])]), true));
    v
}

/// C03: membership histories; observers are explored separately
pub fn c03_quick() -> Vec<(Scenario, bool)> {
    let m = ["A", "B", "C", "Z"];
    let ad = ["A", "B"];
    let mut v: Vec<(Scenario, bool)> = Vec::new();
    // removal: the ex-member and an outsider see everything published afterwards
    v.push((base("removal", &m, &ad, &["O"], vec![msg("C", "c-before"), act("A", ActKind::Remove("C".into()), 10).then(vec![msg("Z", "z-after-removal"), rename("A", "x", 20).then(vec![msg("Z", "z-later")])])]), true));
    // a joiner is fed the traffic from before it joined
    v.push((base("joiner", &m, &ad, &["D", "O"], vec![msg("Z", "z-before-join"), act("A", ActKind::Add("D".into()), 10).then(vec![msg("Z", "z-after-join"), msg("D", "d-says")])]), true));
    // leave + auto-commit
    v.push((base("leave", &m, &ad, &["O"], vec![act("C", ActKind::Leave, 5), act("A", ActKind::CommitLeave("C.leave0".into()), 10).then(vec![msg("Z", "z-after-leave")])]), true));
    // removal on a losing branch: the roster is restored by the rollback
    v.push((base("removal-loses", &m, &ad, &["O"], vec![act("A", ActKind::Remove("C".into()), 20).then(vec![msg("Z", "z-on-loser")]), rename("B", "w", 10).then(vec![msg("Z", "z-on-winner")])]), true));
    // one user with two devices is removed: both devices are out
    let mut two = base("removal-two-devices", &["A", "B", "C", "C2", "Z"], &ad, &["O"], vec![msg("C2", "c2-before"), act("A", ActKind::Remove("C".into()), 10).then(vec![msg("Z", "z-after-removal")])]);
    two.same_identity = vec![("C2".into(), "C".into())];
    v.push((two, true));
    // several users removed by one call, named in both orders (their keys are random: one of the two orders is descending)
    let m5 = ["A", "B", "C", "E", "F", "Z"];
    for (i, who) in ["C+E", "E+C", "C+E+F", "F+E+C", "E+F+C"].iter().enumerate() {
        v.push((base(&format!("removal-many-{i}"), &m5, &ad, &["O"], vec![act("A", ActKind::Remove(who.to_string()), 10).then(vec![msg("Z", "z-after-removals")])]), true));
    }
    // id rotation then removal
    v.push((base("rotate-remove", &m, &ad, &["O"], vec![act("A", ActKind::RotateId(0xC3), 10).then(vec![act("A", ActKind::Remove("C".into()), 20).then(vec![msg("Z", "z-after")])])]), true));
    v
}
