//! Scenario families (fork trees), enumerated from small alphabets.

use crate::lab::Cfg;
use crate::scenario::*;

pub fn base(name: &str, members: &[&str], admins: &[&str], outsiders: &[&str], root: Vec<Act>) -> Scenario {
    Scenario {
        name: name.into(),
        members: members.iter().map(|s| s.to_string()).collect(),
        admins: admins.iter().map(|s| s.to_string()).collect(),
        outsiders: outsiders.iter().map(|s| s.to_string()).collect(),
        cfg: Cfg::default(),
        root: Node { acts: root },
    }
}

pub fn with_retention(mut s: Scenario, r: usize) -> Scenario {
    s.cfg.epoch_snapshot_retention = r;
    s.name = format!("{}-ret{r}", s.name);
    s
}

fn rename(a: &str, n: &str, ts: u64) -> Act {
    act(a, ActKind::Rename(n.into()), ts)
}
fn msg(a: &str, c: &str) -> Act {
    act(a, ActKind::Msg(c.into()), 5)
}

/// the action alphabet for one committer (simplest first)
pub fn commit_alphabet(actor: &str, is_admin: bool) -> Vec<ActKind> {
    let mut v = vec![ActKind::SelfUpdate];
    if is_admin {
        v.push(ActKind::Rename(format!("by-{actor}")));
        v.push(ActKind::Relay(format!("wss://{}.example", actor.to_lowercase())));
        v.push(ActKind::RotateId(actor.as_bytes()[0]));
        v.push(ActKind::Add("D".into()));
        v.push(ActKind::Remove("C".into()));
    }
    v
}

/// C01 quick: 12 scenarios, pools <= 5
pub fn c01_quick() -> Vec<(Scenario, bool)> {
    let m = ["A", "B", "C", "Z"];
    let ad = ["A", "B"];
    let mut v: Vec<(Scenario, bool)> = Vec::new();
    // two admins race, ordered by timestamp
    v.push((base("race2-ts", &m, &ad, &[], vec![rename("A", "a", 10), rename("B", "b", 20)]), true));
    // full tie on timestamp, id order both ways
    v.push((base("race2-tie-a", &m, &ad, &[], vec![rename("A", "a", 10).nib(1), rename("B", "b", 10).nib(9)]), true));
    v.push((base("race2-tie-b", &m, &ad, &[], vec![rename("A", "a", 10).nib(9), rename("B", "b", 10).nib(1)]), true));
    // non-admin self-update against an admin rename, both orders
    v.push((base("race-su-rename", &m, &ad, &[], vec![act("C", ActKind::SelfUpdate, 10), rename("A", "a", 20)]), true));
    v.push((base("race-rename-su", &m, &ad, &[], vec![act("C", ActKind::SelfUpdate, 20), rename("A", "a", 10)]), true));
    // add vs rename
    v.push((base("race-add-rename", &m, &ad, &["D"], vec![act("A", ActKind::Add("D".into()), 10), rename("B", "b", 20)]), true));
    // remove wins / remove loses
    v.push((base("race-remove-wins", &m, &ad, &[], vec![act("A", ActKind::Remove("C".into()), 10), rename("B", "b", 20)]), true));
    v.push((base("race-remove-loses", &m, &ad, &[], vec![act("A", ActKind::Remove("C".into()), 20), rename("B", "b", 10)]), true));
    // three-way
    v.push((base("race3", &m, &ad, &[], vec![rename("A", "a", 20), rename("B", "b", 10), act("C", ActKind::SelfUpdate, 30)]), true));
    // chain of forks: the loser keeps working on its branch
    v.push((
        base(
            "chain2",
            &m,
            &ad,
            &[],
            vec![rename("A", "a1", 10).then(vec![rename("A", "a2", 30)]), rename("B", "b1", 20).then(vec![rename("B", "b2", 40)])],
        ),
        true,
    ));
    // a message next to a race
    v.push((base("race2-msg", &m, &ad, &[], vec![msg("C", "hello"), rename("A", "a", 10), rename("B", "b", 20)]), true));
    // retention boundary: fork two deep with retention 1 is beyond what must converge
    v.push((
        with_retention(
            base(
                "chain2",
                &m,
                &ad,
                &[],
                vec![rename("A", "a1", 10).then(vec![rename("A", "a2", 30)]), rename("B", "b1", 20).then(vec![rename("B", "b2", 40)])],
            ),
            1,
        ),
        false,
    ));
    v
}

/// C02 quick: message scenarios, pools <= 5
pub fn c02_quick() -> Vec<(Scenario, bool)> {
    let m = ["A", "B", "C", "Z"];
    let ad = ["A", "B"];
    let mut v: Vec<(Scenario, bool)> = Vec::new();
    v.push((base("msg-bystander-race", &m, &ad, &[], vec![msg("C", "m-c0"), rename("A", "a", 10), rename("B", "b", 20)]), true));
    v.push((base("msg-committer-race", &m, &ad, &[], vec![msg("A", "m-a0"), rename("A", "a", 10), rename("B", "b", 20)]), true));
    v.push((base("msg-on-loser-branch", &m, &ad, &[], vec![rename("A", "a", 10), rename("B", "b", 20).then(vec![msg("B", "m-b1")])]), true));
    v.push((base("msg-on-winner-branch", &m, &ad, &[], vec![rename("A", "a", 10).then(vec![msg("C", "m-c1")]), rename("B", "b", 20)]), true));
    v.push((base("msg-two-same-sender", &m, &ad, &[], vec![msg("C", "m-c0"), msg("C", "m-c0b"), rename("A", "a", 10)]), true));
    v.push((base("msg-across-commit", &m, &ad, &[], vec![msg("C", "m-c0"), rename("A", "a", 10).then(vec![msg("C", "m-c1")])]), true));
    v
}
