//! Phase 1: scenario description (a fork tree of concurrent member actions) and its
//! materialisation with real clients into a pool of published events plus the reference.

use std::collections::BTreeMap;

use mdk_core::prelude::*;
use mdk_core::verif_hooks::{WrapperOverride, set_wrapper_override};
use mdk_storage_traits::GroupId;
use nostr::{Event, EventId, UnsignedEvent};
use serde::{Deserialize, Serialize};

use crate::lab::*;
use crate::with_mdk;

#[derive(Debug, Clone, Serialize, Deserialize, PartialEq, Eq)]
pub enum ActKind {
    /// application message with this content
    Msg(String),
    SelfUpdate,
    Rename(String),
    /// replace the relay set by this one URL
    Relay(String),
    /// replace the relay set by these URLs (may be empty)
    Relays(Vec<String>),
    /// set (Some(b): hash=[b;32], key=[b+1;32], nonce=[b+2;12]) or clear (None) the group image
    Image(Option<u8>),
    /// change only some of the image fields: (hash, key, nonce), each Some(b) -> [b; n]
    ImageParts(Option<u8>, Option<u8>, Option<u8>),
    /// change the description
    Describe(String),
    /// rotate the Nostr group id to [b;32]
    RotateId(u8),
    /// replace admin set by these members
    Admins(Vec<String>),
    Add(String),
    Remove(String),
    /// leave proposal (no commit)
    Leave,
    /// the actor (an admin) processes the leave proposal with this label at this node and publishes its auto-commit
    CommitLeave(String),
}

impl ActKind {
    pub fn is_commit(&self) -> bool {
        !matches!(self, ActKind::Msg(_) | ActKind::Leave)
    }
    pub fn short(&self) -> String {
        match self {
            ActKind::Msg(_) => "msg".into(),
            ActKind::SelfUpdate => "selfupdate".into(),
            ActKind::Rename(_) => "rename".into(),
            ActKind::Relay(_) => "relay".into(),
            ActKind::RotateId(_) => "rotate".into(),
            ActKind::Relays(_) => "relays".into(),
            ActKind::Image(_) => "image".into(),
            ActKind::ImageParts(..) => "imageparts".into(),
            ActKind::Describe(_) => "describe".into(),
            ActKind::Admins(_) => "admins".into(),
            ActKind::Add(_) => "add".into(),
            ActKind::Remove(_) => "remove".into(),
            ActKind::Leave => "leave".into(),
            ActKind::CommitLeave(_) => "commitleave".into(),
        }
    }
}

#[derive(Debug, Clone, Serialize, Deserialize, PartialEq, Eq)]
pub struct Act {
    pub actor: String,
    pub kind: ActKind,
    /// wrapper timestamp rank (seconds after the scenario's base time)
    pub ts: u64,
    /// first nibble of the wrapper id (fixes the id order among equal timestamps)
    pub nib: Option<u8>,
    /// for commits: the state reached by applying it, with the actions taken there
    pub child: Option<Box<Node>>,
}

#[derive(Debug, Clone, Default, Serialize, Deserialize, PartialEq, Eq)]
pub struct Node {
    pub acts: Vec<Act>,
}

#[derive(Debug, Clone, Serialize, Deserialize, PartialEq, Eq)]
pub struct Scenario {
    pub name: String,
    /// first member creates the group; the last one is by convention the silent bystander `Z`
    pub members: Vec<String>,
    pub admins: Vec<String>,
    /// extra clients that exist but are not initial members (targets of Add)
    pub outsiders: Vec<String>,
    pub cfg: Cfg,
    pub root: Node,
    /// (client, other client): the first uses the Nostr identity of the second (one user, two devices)
    #[serde(default)]
    pub same_identity: Vec<(String, String)>,
}

pub fn act(actor: &str, kind: ActKind, ts: u64) -> Act {
    Act { actor: actor.into(), kind, ts, nib: None, child: None }
}
impl Act {
    pub fn nib(mut self, n: u8) -> Self {
        self.nib = Some(n);
        self
    }
    pub fn then(mut self, acts: Vec<Act>) -> Self {
        self.child = Some(Box::new(Node { acts }));
        self
    }
}

#[derive(Debug, Clone, Copy, PartialEq, Eq, Serialize, Deserialize, Hash, PartialOrd, Ord)]
pub enum EvKind {
    Commit,
    Proposal,
    Msg,
}

/// One published event with harness-side metadata
#[derive(Debug, Clone)]
pub struct PoolEvent {
    pub label: String,
    pub event: Event,
    pub kind: EvKind,
    pub act: ActKind,
    pub author: String,
    /// path of the node the event was created in (indices of commit actions from the root)
    pub node: Vec<usize>,
    /// for commits: path of the node it leads to
    pub child: Option<Vec<usize>>,
    pub ts: u64,
    /// the rumor a message carries (as given to create_message)
    pub rumor: Option<UnsignedEvent>,
}

pub struct NodeInfo {
    pub path: Vec<usize>,
    /// group state every member must have in this node (taken from the reference clients)
    pub core: GroupCore,
    pub members: Vec<String>,
    pub record: serde_json::Value,
    pub relays: Vec<String>,
    /// reference clients positioned in this node (only members of the group at this node)
    pub clients: BTreeMap<String, Client>,
}

pub struct World {
    pub sc: Scenario,
    pub backend: Bk,
    pub gid: GroupId,
    pub base_ts: u64,
    pub pool: Vec<PoolEvent>,
    pub nodes: BTreeMap<Vec<usize>, NodeInfo>,
    /// welcome rumors published: (wrapper id used, rumor, invitee)
    pub welcomes: Vec<(EventId, UnsignedEvent, String)>,
    pub names_by_pk: BTreeMap<String, String>,
    pub pks_by_name: BTreeMap<String, String>,
    /// path of the spine leaf (MIP-03 winner at every fork)
    pub spine: Vec<Vec<usize>>,
    /// for every member: the client it starts exploration with
    pub initial: BTreeMap<String, Client>,
    /// node path at which each member's initial client sits
    pub initial_node: BTreeMap<String, Vec<usize>>,
    /// all sensitive byte strings of this world (for C14): label -> bytes
    pub secrets: Vec<(String, Vec<u8>)>,
    /// canonical re-offer order: by depth, spine events first, commits by MIP-03 rank
    pub settle_order: Vec<usize>,
    /// nodes where the roster the implementation produced differs from what the scripted operations name:
    /// (node path, expected, implementation)
    pub roster_mismatches: Vec<(Vec<usize>, Vec<String>, Vec<String>)>,
    /// for every invitation in `welcomes`: path of the node whose state the joiner must reach by accepting it
    pub welcome_nodes: Vec<Vec<usize>>,
    /// "original", "replay-new-wrapper", "forged-same-mls-group-id", ...
    pub welcome_kinds: Vec<String>,
    /// joiner clients as they were before they saw their invitation
    pub prejoin: BTreeMap<String, Client>,
    /// published key-package events by owner
    pub key_packages: BTreeMap<String, Event>,
    /// clients of members that were removed, as they were when they dropped out of the reference run
    pub graveyard: BTreeMap<String, Client>,
}

#[derive(Debug)]
pub struct GenError(pub String);

fn ge<T: std::fmt::Debug>(ctx: &str) -> impl Fn(T) -> GenError + '_ {
    move |e| GenError(format!("{ctx}: {e:?}"))
}

impl World {
    pub fn pool_ids(&self) -> Vec<EventId> {
        self.pool.iter().map(|p| p.event.id).collect()
    }
    pub fn welcome_ids(&self) -> Vec<EventId> {
        self.welcomes.iter().filter_map(|w| w.1.id).collect()
    }
    pub fn pk_name(&self, pk_hex: &str) -> String {
        self.names_by_pk.get(pk_hex).cloned().unwrap_or_else(|| format!("?{}", &pk_hex[..6]))
    }
    pub fn leaf(&self) -> &NodeInfo {
        &self.nodes[self.spine.last().unwrap()]
    }
    /// MIP-03 comparator on scenario data only
    pub fn better(a: &PoolEvent, b: &PoolEvent) -> bool {
        (a.ts, a.event.id.to_hex()) < (b.ts, b.event.id.to_hex())
    }
    pub fn node_of_auth(&self, auth: &str) -> Option<&NodeInfo> {
        self.nodes.values().find(|n| n.core.authenticator == auth)
    }
}

/// Materialise a scenario with real clients. Deterministic up to the random bytes inside MLS objects.
pub fn build_world(sc: &Scenario, backend: Bk) -> Result<World, GenError> {
    let base_ts = now() - 2000;
    let mut all: BTreeMap<String, Client> = BTreeMap::new();
    for n in sc.members.iter().chain(sc.outsiders.iter()) {
        let twin = sc.same_identity.iter().find(|(a, _)| a == n).and_then(|(_, b)| all.get(b).map(|c: &Client| c.keys.clone()));
        match twin {
            Some(k) => all.insert(n.clone(), Client::with_keys(n, k, backend, &sc.cfg)),
            None => all.insert(n.clone(), Client::new(n, backend, &sc.cfg)),
        };
    }
    let pks_by_name: BTreeMap<String, String> = all.iter().map(|(n, c)| (n.clone(), c.pk().to_hex())).collect();
    let names_by_pk: BTreeMap<String, String> = all.iter().map(|(n, c)| (c.pk().to_hex(), n.clone())).collect();
    let creator = &sc.members[0];
    let kps: Vec<Event> = sc.members[1..].iter().map(|n| all[n].key_package_event()).collect();
    let kps_copy = kps.clone();
    let admins: Vec<nostr::PublicKey> = sc.admins.iter().map(|n| all[n].pk()).collect();
    let cfgd = NostrGroupConfigData::new(
        "lab".into(),
        "lab group".into(),
        Some([7u8; 32]),
        Some([8u8; 32]),
        Some([9u8; 12]),
        vec![relay("wss://r0.example")],
        admins,
    );
    let res = with_mdk!(all[creator], m => m.create_group(&all[creator].pk(), kps, cfgd)).map_err(ge("create_group"))?;
    let gid = res.group.mls_group_id.clone();
    let mut welcomes = Vec::new();
    for (i, r) in res.welcome_rumors.iter().enumerate() {
        let invitee = &sc.members[1 + i];
        let wid = EventId::from_slice(&sha2_32(format!("welcome-wrapper-{i}").as_bytes())).unwrap();
        let c = &all[invitee];
        let w = with_mdk!(c, m => m.process_welcome(&wid, r)).map_err(ge("process_welcome"))?;
        with_mdk!(c, m => m.accept_welcome(&w)).map_err(ge("accept_welcome"))?;
        welcomes.push((wid, r.clone(), invitee.clone()));
    }

    let mut w = World {
        sc: sc.clone(),
        backend,
        gid: gid.clone(),
        base_ts,
        pool: Vec::new(),
        nodes: BTreeMap::new(),
        welcomes,
        names_by_pk,
        pks_by_name,
        spine: Vec::new(),
        initial: BTreeMap::new(),
        initial_node: BTreeMap::new(),
        secrets: Vec::new(),
        settle_order: Vec::new(),
        roster_mismatches: Vec::new(),
        welcome_nodes: Vec::new(),
        welcome_kinds: Vec::new(),
        prejoin: BTreeMap::new(),
        key_packages: BTreeMap::new(),
        graveyard: BTreeMap::new(),
    };
    for (i, n) in sc.members[1..].iter().enumerate() {
        w.key_packages.insert(n.clone(), kps_copy[i].clone());
        w.welcome_nodes.push(vec![]);
    }

    // root node clients
    let mut root_clients: BTreeMap<String, Client> = BTreeMap::new();
    for n in &sc.members {
        root_clients.insert(n.clone(), all.remove(n).unwrap());
    }
    // outsiders kept aside (used when added)
    let mut outsiders = all;
    let mut msg_counter = 0u64;
    let expected0: std::collections::BTreeSet<String> = sc.members.iter().cloned().collect();
    expand(&mut w, &sc.root, vec![], root_clients, &mut outsiders, &mut msg_counter, expected0)?;

    // spine
    let mut path: Vec<usize> = vec![];
    w.spine.push(path.clone());
    loop {
        let commits: Vec<&PoolEvent> = w.pool.iter().filter(|p| p.kind == EvKind::Commit && p.node == path && p.child.is_some()).collect();
        if commits.is_empty() {
            break;
        }
        let mut best = commits[0];
        for c in &commits[1..] {
            if World::better(c, best) {
                best = c;
            }
        }
        path = best.child.clone().unwrap();
        if !w.nodes.contains_key(&path) {
            break;
        }
        w.spine.push(path.clone());
    }
    // outsiders that never joined are observers too: a client with an unrelated group of its own
    let leftover: Vec<String> = outsiders.keys().cloned().collect();
    for n in leftover {
        if !w.initial.contains_key(&n) {
            let c = outsiders.remove(&n).unwrap();
            let cfgd = NostrGroupConfigData::new("own".into(), "unrelated".into(), None, None, None, vec![relay("wss://own.example")], vec![c.pk()]);
            let _ = with_mdk!(c, m => m.create_group(&c.pk(), vec![], cfgd));
            w.initial.insert(n.clone(), c);
            w.initial_node.insert(n, vec![]);
        }
    }
    // canonical re-offer order
    let mut order: Vec<usize> = (0..w.pool.len()).collect();
    order.sort_by_key(|&i| {
        let p = &w.pool[i];
        let on = w.spine.iter().any(|s| s == &p.node);
        let win = p.child.as_ref().map(|c| w.spine.iter().any(|s| s == c)).unwrap_or(false);
        (p.node.len(), !on, p.kind == EvKind::Commit, !win, if p.kind == EvKind::Commit { p.ts } else { 0 }, if p.kind == EvKind::Commit { p.event.id.to_hex() } else { format!("{i:04}") })
    });
    w.settle_order = order;
    // sensitive values
    w.secrets.push(("mls_group_id".into(), gid.as_slice().to_vec()));
    let mut seen = std::collections::BTreeSet::new();
    for n in w.nodes.values() {
        if let Some(id) = n.record["nostr_group_id"].as_str() {
            if seen.insert(id.to_string()) {
                w.secrets.push(("nostr_group_id".into(), hex::decode(id).unwrap()));
            }
        }
        for c in n.clients.values() {
            for e in 0..(n.core.epoch + 1) {
                if let Ok(Some(s)) = with_mdk!(c, m => { use mdk_storage_traits::groups::GroupStorage; use openmls::prelude::OpenMlsProvider; m.provider.storage().get_group_exporter_secret(&gid, e) }) {
                    let b = s.secret.as_ref().to_vec();
                    if seen.insert(hx(&b)) {
                        w.secrets.push(("exporter_secret".into(), b));
                    }
                }
            }
        }
    }
    w.secrets.push(("image_key".into(), vec![8u8; 32]));
    // the image key / upload seed in force in every node of the history (image commits change them)
    for n in w.nodes.values() {
        if let Ok(ext) = serde_json::from_str::<serde_json::Value>(&n.core.ext) {
            for f in ["image_key", "image_upload_key"] {
                if let Some(b) = ext[f].as_str().and_then(|h| hex::decode(h).ok()) {
                    if b.len() >= 16 && seen.insert(format!("{f}:{}", hx(&b))) && b != vec![8u8; 32] {
                        w.secrets.push((f.to_string(), b));
                    }
                }
            }
        }
    }
    while w.welcome_kinds.len() < w.welcomes.len() {
        w.welcome_kinds.push("original".into());
    }
    Ok(w)
}

pub fn sha2_32(b: &[u8]) -> [u8; 32] {
    use sha2::Digest;
    sha2::Sha256::digest(b).into()
}

fn core_of(c: &Client, gid: &GroupId) -> Result<(GroupCore, serde_json::Value, Vec<String>), GenError> {
    let o = c.group_obs(gid).ok_or(GenError(format!("no group on {}", c.name)))?;
    let core = o.mls.clone().ok_or(GenError(format!("no mls group on {}: {:?}", c.name, o.mls_error)))?;
    Ok((core, o.record.clone(), o.relays.clone()))
}

fn expand(
    w: &mut World,
    node: &Node,
    path: Vec<usize>,
    mut clients: BTreeMap<String, Client>,
    outsiders: &mut BTreeMap<String, Client>,
    msg_counter: &mut u64,
    expected: std::collections::BTreeSet<String>,
) -> Result<(), GenError> {
    let gid = w.gid.clone();
    // record node info from the reference bystander (last member present), sanity: all agree
    let zname = clients
        .keys()
        .rev()
        .find(|n| *n == w.sc.members.last().unwrap())
        .or_else(|| clients.keys().next())
        .cloned()
        .ok_or(GenError("empty node".into()))?;
    let (core, record, relays) = core_of(&clients[&zname], &gid)?;
    for (n, c) in clients.iter() {
        let (c2, _, _) = core_of(c, &gid)?;
        if c2 != core {
            return Err(GenError(format!("generator: reference clients disagree in node {path:?}: {n} vs {zname}")));
        }
    }
    // membership of this node as the scenario text defines it (never read from the implementation)
    let members: Vec<String> = expected.iter().cloned().collect();
    let impl_members: Vec<String> = w.pks_by_name.iter().filter(|(_, pk)| core.members.contains(pk)).map(|(n, _)| n.clone()).filter(|n| w.sc.members.contains(n) || w.sc.outsiders.contains(n)).collect();
    let mut a = members.clone();
    a.sort();
    let mut b = impl_members.clone();
    b.sort();
    if a != b {
        w.roster_mismatches.push((path.clone(), a, b));
    }

    // actions: every actor acts on its own client of this node; the client keeps the local effects
    struct Pending {
        pool_idx: usize,
        act_idx: usize,
        welcome: Option<Vec<UnsignedEvent>>,
    }
    let mut pendings: Vec<Pending> = Vec::new();
    for (ai, a) in node.acts.iter().enumerate() {
        let c = clients.get(&a.actor).ok_or(GenError(format!("actor {} not in node {path:?}", a.actor)))?;
        let label = format!("n{}.{}.{}{}", path.iter().map(|x| x.to_string()).collect::<Vec<_>>().join("_"), a.actor, a.kind.short(), ai);
        set_wrapper_override(Some(WrapperOverride { created_at: w.base_ts + a.ts, id_first_nibble: a.nib }));
        let mut rumor_opt = None;
        let mut welcome = None;
        let ev: Event = match &a.kind {
            ActKind::Msg(content) => {
                *msg_counter += 1;
                let r = rumor(&c.keys, content, w.base_ts + 100 + *msg_counter);
                rumor_opt = Some(r.clone());
                with_mdk!(c, m => m.create_message(&gid, r)).map_err(ge(&label))?
            }
            ActKind::SelfUpdate => with_mdk!(c, m => m.self_update(&gid)).map_err(ge(&label))?.evolution_event,
            ActKind::Rename(n) => with_mdk!(c, m => m.update_group_data(&gid, NostrGroupDataUpdate::new().name(n.clone()))).map_err(ge(&label))?.evolution_event,
            ActKind::Relay(u) => with_mdk!(c, m => m.update_group_data(&gid, NostrGroupDataUpdate::new().relays(vec![relay(u)]))).map_err(ge(&label))?.evolution_event,
            ActKind::Relays(us) => with_mdk!(c, m => m.update_group_data(&gid, NostrGroupDataUpdate::new().relays(us.iter().map(|u| relay(u)).collect()))).map_err(ge(&label))?.evolution_event,
            ActKind::Image(Some(b)) => with_mdk!(c, m => m.update_group_data(&gid, NostrGroupDataUpdate::new().image_hash(Some([*b; 32])).image_key(Some([b.wrapping_add(1); 32])).image_nonce(Some([b.wrapping_add(2); 12])))).map_err(ge(&label))?.evolution_event,
            ActKind::Image(None) => with_mdk!(c, m => m.update_group_data(&gid, NostrGroupDataUpdate::new().image_hash(None))).map_err(ge(&label))?.evolution_event,
            ActKind::ImageParts(h, k, n) => {
                let mut u = NostrGroupDataUpdate::new();
                if let Some(b) = h {
                    u = u.image_hash(Some([*b; 32]));
                }
                if let Some(b) = k {
                    u = u.image_key(Some([*b; 32]));
                }
                if let Some(b) = n {
                    u = u.image_nonce(Some([*b; 12]));
                }
                with_mdk!(c, m => m.update_group_data(&gid, u)).map_err(ge(&label))?.evolution_event
            }
            ActKind::Describe(d) => with_mdk!(c, m => m.update_group_data(&gid, NostrGroupDataUpdate::new().description(d.clone()))).map_err(ge(&label))?.evolution_event,
            ActKind::RotateId(b) => with_mdk!(c, m => m.update_group_data(&gid, NostrGroupDataUpdate::new().nostr_group_id([*b; 32]))).map_err(ge(&label))?.evolution_event,
            ActKind::Admins(names) => {
                let mut pks = Vec::new();
                for n in names {
                    let pk = w.pks_by_name.get(n).map(|k| nostr::PublicKey::from_hex(k).unwrap()).ok_or(GenError(format!("unknown {n}")))?;
                    pks.push(pk);
                }
                with_mdk!(c, m => m.update_group_data(&gid, NostrGroupDataUpdate::new().admins(pks))).map_err(ge(&label))?.evolution_event
            }
            ActKind::Add(who) => {
                let o = outsiders.get(who).or_else(|| w.graveyard.get(who)).ok_or(GenError(format!("unknown outsider {who}")))?;
                let kp = o.key_package_event();
                w.key_packages.insert(who.clone(), kp.clone());
                let r = with_mdk!(c, m => m.add_members(&gid, &[kp])).map_err(ge(&label))?;
                welcome = r.welcome_rumors.clone();
                r.evolution_event
            }
            ActKind::Remove(who) => {
                // "C+E" removes several users in one call, in the order written
                let mut pks = Vec::new();
                for one in who.split('+') {
                    pks.push(w.pks_by_name.get(one).map(|k| nostr::PublicKey::from_hex(k).unwrap()).ok_or(GenError(format!("unknown {one}")))?);
                }
                with_mdk!(c, m => m.remove_members(&gid, &pks)).map_err(ge(&label))?.evolution_event
            }
            ActKind::Leave => with_mdk!(c, m => m.leave_group(&gid)).map_err(ge(&label))?.evolution_event,
            ActKind::CommitLeave(leave_label) => {
                let lev = w.pool.iter().find(|p| p.label.ends_with(leave_label) || &p.label == leave_label).ok_or(GenError(format!("no leave event {leave_label}")))?.event.clone();
                match c.process(&lev) {
                    Ok(MessageProcessingResult::Proposal(r)) => r.evolution_event,
                    other => return Err(GenError(format!("{label}: expected auto-commit, got {}", result_kind(&other)))),
                }
            }
        };
        set_wrapper_override(None);
        let kind = match &a.kind {
            ActKind::Msg(_) => EvKind::Msg,
            ActKind::Leave => EvKind::Proposal,
            _ => EvKind::Commit,
        };
        let mut child = None;
        if kind == EvKind::Commit {
            let mut p = path.clone();
            p.push(ai);
            child = Some(p);
        }
        w.pool.push(PoolEvent {
            label,
            event: ev,
            kind,
            act: a.kind.clone(),
            author: a.actor.clone(),
            node: path.clone(),
            child,
            ts: a.ts,
            rumor: rumor_opt,
        });
        if kind == EvKind::Commit {
            pendings.push(Pending { pool_idx: w.pool.len() - 1, act_idx: ai, welcome });
        }
    }

    // remember initial exploration clients: the deepest node where the member acted (or root)
    for (n, c) in clients.iter() {
        let acted_here = node.acts.iter().any(|a| &a.actor == n);
        if acted_here || !w.initial.contains_key(n) {
            w.initial.insert(n.clone(), c.fork());
            w.initial_node.insert(n.clone(), path.clone());
        }
    }

    // children
    for p in pendings {
        let a = &node.acts[p.act_idx];
        let commit_ev = w.pool[p.pool_idx].event.clone();
        let mut child_path = path.clone();
        child_path.push(p.act_idx);
        // every member's reference client moves in order; built even when the child has no actions (needed as reference)
        let mut next: BTreeMap<String, Client> = BTreeMap::new();
        let mut ok = true;
        for (n, c) in clients.iter() {
            let f = c.fork();
            if n == &a.actor {
                if let Err(e) = with_mdk!(f, m => m.merge_pending_commit(&gid)) {
                    return Err(GenError(format!("merge_pending_commit {}: {e:?}", w.pool[p.pool_idx].label)));
                }
            } else {
                // proposals of this node come first (a commit by reference needs them); an admin's
                // auto-commit triggered by that is dropped again below
                for pe in w.pool.iter().filter(|q| q.kind == EvKind::Proposal && q.node == path && &q.author != n) {
                    let _ = f.process(&pe.event);
                }
                // a reference client that holds an own pending commit of this node drops it first: the
                // reference is "a client that processed exactly this path in order"
                let has_pending = f.group_obs(&gid).map(|o| o.pending_commit).unwrap_or(false);
                let authored_here = node.acts.iter().any(|x| &x.actor == n && x.kind.is_commit());
                if has_pending && !authored_here {
                    // an auto-commit produced while following the proposals was never published
                    let _ = with_mdk!(f, m => m.clear_pending_commit(&gid));
                }
                match f.process(&commit_ev) {
                    Ok(MessageProcessingResult::Commit { .. }) => {}
                    other => {
                        // reference could not follow (e.g. commit refused as unauthorised): no child
                        let _ = other;
                        ok = false;
                        break;
                    }
                }
            }
            // drop clients that are no longer members
            let o = f.group_obs(&gid);
            let still_member = o.as_ref().map(|o| o.own_leaf && is_active(o)).unwrap_or(false);
            if still_member {
                next.insert(n.clone(), f);
            } else {
                w.graveyard.insert(n.clone(), f);
            }
        }
        if !ok {
            w.pool[p.pool_idx].child = None;
            continue;
        }
        // joiners
        if let (ActKind::Add(who), Some(rumors)) = (&a.kind, &p.welcome) {
            if let Some(j) = outsiders.get(who).or_else(|| w.graveyard.get(who)) {
                let jf = j.fork();
                w.prejoin.insert(who.clone(), j.fork());
                let wid = EventId::from_slice(&sha2_32(format!("welcome-{}", w.pool[p.pool_idx].label).as_bytes())).unwrap();
                for r in rumors {
                    let wl = with_mdk!(jf, m => m.process_welcome(&wid, r)).map_err(ge("joiner process_welcome"))?;
                    with_mdk!(jf, m => m.accept_welcome(&wl)).map_err(ge("joiner accept_welcome"))?;
                    w.welcomes.push((wid, r.clone(), who.clone()));
                    w.welcome_nodes.push(child_path.clone());
                }
                next.insert(who.clone(), jf);
            }
        }
        let empty = Node::default();
        let child_node = a.child.as_deref().unwrap_or(&empty);
        // what the operation names, by identity: every device of a removed user goes
        let mut exp_child = expected.clone();
        let same_user = |x: &str| -> Vec<String> {
            let pk = w.pks_by_name.get(x).cloned();
            w.pks_by_name.iter().filter(|(_, p)| Some(*p) == pk.as_ref()).map(|(n, _)| n.clone()).collect()
        };
        match &a.kind {
            ActKind::Add(x) => {
                exp_child.insert(x.clone());
            }
            ActKind::Remove(x) => {
                for one in x.split('+') {
                    for n in same_user(one) {
                        exp_child.remove(&n);
                    }
                }
            }
            ActKind::CommitLeave(label) => {
                if let Some(pe) = w.pool.iter().find(|p| p.label.ends_with(label.as_str())) {
                    let who = pe.author.clone();
                    exp_child.remove(&who);
                }
            }
            _ => {}
        }
        expand(w, child_node, child_path, next, outsiders, msg_counter, exp_child)?;
    }

    w.nodes.insert(path.clone(), NodeInfo { path, core, members, record, relays, clients });
    Ok(())
}

/// A real client has one history: every member may author only along one root-to-leaf path of the tree.
pub fn single_author_paths(sc: &Scenario) -> bool {
    fn walk(n: &Node, path: &mut Vec<usize>, out: &mut BTreeMap<String, Vec<Vec<usize>>>) {
        for (i, a) in n.acts.iter().enumerate() {
            out.entry(a.actor.clone()).or_default().push(path.clone());
            if let Some(c) = &a.child {
                path.push(i);
                walk(c, path, out);
                path.pop();
            }
        }
    }
    let mut m: BTreeMap<String, Vec<Vec<usize>>> = BTreeMap::new();
    walk(&sc.root, &mut vec![], &mut m);
    for (_, nodes) in m {
        for a in &nodes {
            for b in &nodes {
                let k = a.len().min(b.len());
                if a[..k] != b[..k] {
                    return false;
                }
            }
        }
    }
    true
}
