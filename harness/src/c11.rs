//! C11: restart is invisible. Lock-step product search over pairs (never restarted, shadow) of the
//! same member on SQLite; `restart` applies to the shadow only and is enabled in every pair state.

use std::collections::{HashMap, VecDeque};

use serde_json::json;

use crate::explore::*;
use crate::lab::*;
use crate::props_e1::{event_class, member_role};
use crate::report::Report;
use crate::scenario::*;
#[allow(unused_imports)]
use crate::scenario::EvKind;

struct PairRec {
    parent: Option<(usize, Action)>,
    restarts_since_sync: bool,
    /// the two replicas each created an (unpublished) auto-commit with their own randomness; until it is
    /// dropped their MLS blobs legitimately differ, so only the observable state is compared
    rand_diverged: bool,
}

fn stable_dump(c: &Client) -> Vec<String> {
    // snapshot copies of the group row embed wall-clock columns inside their JSON payload
    c.dump().into_iter().filter(|l| !(l.starts_with("group_state_snapshots|") && l.contains("table_name=groups|"))).collect()
}

pub fn explore_pairs(w: &World, member: &str, regime: Regime, max_pairs: usize, rep: &mut Report) {
    let pool_ids = w.pool_ids();
    let wids = w.welcome_ids();
    let opts = ExploreOpts { regime, max_states: usize::MAX, with_restart: true, with_local_ops: true, keep_key_json: false, pool_filter: None, with_welcomes: false, welcome_consent: 0, prejoin: false, rejoin: false };
    let mut recs: Vec<PairRec> = vec![PairRec { parent: None, restarts_since_sync: false, rand_diverged: false }];
    let mut live: HashMap<usize, (Client, Client, StateRec)> = HashMap::new();
    let mut index: HashMap<(u64, u64), usize> = HashMap::new();
    // the member also holds a second group of its own with rollback snapshots at epochs 0..2 (own self-updates applied
    // from their echo): what a rollback or a restart does to the first group must not depend on it
    // (only in the histories with a rollback followed by another race: every fork and dump pays for the extra rows)
    let base = w.initial[member].fork();
    if w.sc.name.starts_with("deep-rollback") || w.sc.name.starts_with("commit-then-race") {
        second_group_with_snapshots(&base);
    }
    let a0 = base.fork();
    let b0 = base.fork();
    let root_epoch = w.nodes[&vec![]].core.epoch;
    let start_epoch = a0.group_obs(&w.gid).and_then(|g| g.mls.map(|m| m.epoch)).unwrap_or(root_epoch);
    let sa = snap(&a0, w, &pool_ids, &wids);
    let sb = snap(&b0, w, &pool_ids, &wids);
    index.insert((sa.key_hash, sb.key_hash), 0);
    live.insert(0, (a0, b0, sa));
    let mut q = VecDeque::new();
    q.push_back(0usize);
    let mut transitions = 0u64;
    let mut capped = false;
    let path_to = |recs: &Vec<PairRec>, mut s: usize| -> Vec<Action> {
        let mut v = vec![];
        while let Some((p, a)) = recs[s].parent {
            v.push(a);
            s = p;
        }
        v.reverse();
        v
    };
    while let Some(si) = q.pop_front() {
        let (ca, cb, st) = live.remove(&si).unwrap();
        let acts = enabled(w, &st, &opts, member);
        // the actions enabled in one pair state are independent of each other: the real executions (two forks, two calls)
        // run side by side, their results are judged in the order of the action list
        let parent_rand = recs[si].rand_diverged;
        let mut stepped: Vec<Option<(Client, String, Client, String, String, String, Vec<String>, Vec<String>)>> = acts.iter().map(|_| None).collect();
        std::thread::scope(|sc| {
            for (slot, a) in stepped.iter_mut().zip(acts.iter().copied()) {
                let (ca, cb, wids) = (&ca, &cb, &wids);
                sc.spawn(move || {
                    let (na, ra, nb, rb);
                    if a == Action::Restart {
                        // the never-restarted replica stays as it is
                        na = ca.fork();
                        ra = "Ok".to_string();
                        let o = step(w, cb, Action::Restart);
                        nb = o.client;
                        rb = o.result;
                    } else {
                        let oa = step(w, ca, a);
                        let ob = step(w, cb, a);
                        na = oa.client;
                        ra = oa.result;
                        nb = ob.client;
                        rb = ob.result;
                    }
                    let strip = parent_rand && a == Action::MergeOwn;
                    let obs_of = |c: &Client| -> String {
                        let mut v = c.obs(wids);
                        if strip {
                            if let Some(gs) = v.get_mut("groups").and_then(|g| g.as_array_mut()) {
                                for g in gs {
                                    if let Some(m) = g.get_mut("mls").and_then(|m| m.as_object_mut()) {
                                        m.remove("authenticator");
                                    }
                                }
                            }
                        }
                        v.to_string()
                    };
                    let (oa, ob) = if ra == rb { (obs_of(&na), obs_of(&nb)) } else { (String::new(), String::new()) };
                    let (da, db) = if ra == rb && oa == ob { (stable_dump(&na), stable_dump(&nb)) } else { (vec![], vec![]) };
                    *slot = Some((na, ra, nb, rb, oa, ob, da, db));
                });
            }
        });
        for (a, slot) in acts.into_iter().zip(stepped.into_iter()) {
            transitions += 1;
            let (na, ra, nb, rb, oa, ob, da, db) = slot.expect("stepped");
            let mut trace = path_to(&recs, si);
            trace.push(a);
            let labels: Vec<String> = trace.iter().map(|x| x.label(w)).collect();
            let abs = |x: &Action| match x {
                Action::Deliver(i) => format!("deliver({})", event_class(w, member, *i)),
                Action::MergeOwn => "merge_own".into(),
                Action::ClearPending => "clear_pending".into(),
                Action::Restart => "restart".into(),
                other => format!("{other:?}"),
            };
            // where did the shadow restart relative to the moment the contested epoch's snapshot was taken
            let restart_pos = match a {
                Action::Deliver(i) if w.pool[i].kind == EvKind::Commit => {
                    let sib = trace[..trace.len() - 1].iter().position(|x| matches!(x, Action::Deliver(j) if *j != i && w.pool[*j].kind == EvKind::Commit && w.pool[*j].node == w.pool[i].node));
                    let last_restart = trace.iter().rposition(|x| *x == Action::Restart);
                    // a member whose start state is already past the contested epoch applied the competitor
                    // (and took that epoch's snapshot) before the trace began: every restart in the trace is after it
                    let passed_at_start = start_epoch > root_epoch + w.pool[i].node.len() as u64;
                    match (sib, last_restart) {
                        (_, None) => "no-restart",
                        (_, Some(_)) if passed_at_start => "restart-after-competitor-applied",
                        (Some(p), Some(r)) if r > p => "restart-after-competitor-applied",
                        (Some(_), Some(_)) => "restart-before-competitor-applied",
                        (None, Some(_)) => "restart-no-competitor",
                    }
                }
                _ => {
                    if trace.contains(&Action::Restart) { "restarted" } else { "no-restart" }
                }
            };
            rep.case(&format!("{}|{}|{}|{}|{restart_pos}", abs(&a), ra, rb, recs[si].restarts_since_sync));
            if ra != rb {
                rep.outcome(&format!("result-differs:{ra}/{rb}"));
                rep.finding(
                    format!("C11|result-differs|{}|never-restarted={ra}|restarted={rb}|{restart_pos}", abs(&a)),
                    format!("member {member} ({}): after [{}] the restarted replica answers {rb} where the never-restarted one answers {ra}", member_role(w, member), labels.join(" ; ")),
                    json!({"scenario": w.sc, "backend": "Sqlite", "member": member, "regime": format!("{regime:?}"), "trace": trace, "trace_labels": labels}),
                );
                continue; // do not explore beyond a divergence
            }
            // merging an auto-commit that each replica built with its own randomness gives each its own epoch
            // secrets: compare everything but the value derived from them, and do not search beyond it
            let own_random_merged = recs[si].rand_diverged && a == Action::MergeOwn;
            if oa != ob {
                rep.finding(
                    format!("C11|obs-differs|{}|{restart_pos}", abs(&a)),
                    format!("member {member}: after [{}] the observable state of the restarted replica differs", labels.join(" ; ")),
                    json!({"scenario": w.sc, "backend": "Sqlite", "member": member, "regime": format!("{regime:?}"), "trace": trace, "trace_labels": labels, "never_restarted": oa, "restarted": ob}),
                );
                continue;
            }
            let pend = na.group_obs(&w.gid).map(|g| g.pending_commit).unwrap_or(false) || nb.group_obs(&w.gid).map(|g| g.pending_commit).unwrap_or(false);
            // sticky: the snapshot taken when another commit replaces the auto-commit still holds its blob
            let rand_diverged = recs[si].rand_diverged || (pend && ra == "Proposal");
            if da != db && !rand_diverged {
                let only_a: Vec<&String> = da.iter().filter(|l| !db.contains(l)).take(3).collect();
                let only_b: Vec<&String> = db.iter().filter(|l| !da.contains(l)).take(3).collect();
                let tables: std::collections::BTreeSet<String> = only_a.iter().chain(only_b.iter()).map(|l| l.split('|').next().unwrap_or("").to_string()).collect();
                rep.finding(
                    format!("C11|database-differs|{}|{}", abs(&a), tables.into_iter().collect::<Vec<_>>().join("+")),
                    format!("member {member}: after [{}] the database of the restarted replica differs", labels.join(" ; ")),
                    json!({"scenario": w.sc, "backend": "Sqlite", "member": member, "regime": format!("{regime:?}"), "trace": trace, "trace_labels": labels, "only_never_restarted": only_a, "only_restarted": only_b}),
                );
                continue;
            }
            if own_random_merged {
                rep.add_count("pruned_after_own_random_commit_merged", 1);
                continue;
            }
            let sa = snap(&na, w, &pool_ids, &wids);
            let sb = snap(&nb, w, &pool_ids, &wids);
            let k = (sa.key_hash, sb.key_hash ^ if nb.reopened { 0x5bd1e995 } else { 0 });
            if index.contains_key(&k) {
                continue;
            }
            if recs.len() >= max_pairs {
                capped = true;
                continue;
            }
            let t = recs.len();
            index.insert(k, t);
            recs.push(PairRec { parent: Some((si, a)), rand_diverged, restarts_since_sync: a == Action::Restart || (recs[si].restarts_since_sync && sa.key_hash != sb.key_hash) });
            live.insert(t, (na, nb, sa));
            q.push_back(t);
        }
    }
    rep.states += recs.len() as u64;
    rep.transitions += transitions;
    rep.add_count("pair_graphs", 1);
    if capped {
        rep.exhaustive = false;
        rep.add_count("graphs_capped", 1);
    }
    // conformance: re-execute the path to the last pair state and require the same keys
    if recs.len() > 1 {
        let t = path_to(&recs, recs.len() - 1);
        let mut a = base.fork();
        let mut b = base.fork();
        for x in &t {
            if *x == Action::Restart {
                b = b.restart();
            } else {
                a = step(w, &a, *x).client;
                b = step(w, &b, *x).client;
            }
        }
        let k = (snap(&a, w, &pool_ids, &wids).key_hash, snap(&b, w, &pool_ids, &wids).key_hash ^ if b.reopened { 0x5bd1e995 } else { 0 });
        if index.get(&k) == Some(&(recs.len() - 1)) {
            rep.traces_validated += 1;
        } else {
            rep.machinery_errors.push(format!("C11 determinism gate: scenario {} member {member}", w.sc.name));
        }
        rep.sample(json!({"scenario": w.sc.name, "member": member, "pairs": recs.len(), "trace_to_last_pair": t.iter().map(|x| x.label(w)).collect::<Vec<_>>()}));
    }
}

fn second_group_with_snapshots(c: &Client) {
    use mdk_core::prelude::*;
    let cfgd = NostrGroupConfigData::new("own".into(), "second group".into(), None, None, None, vec![relay("wss://own.example")], vec![c.pk()]);
    if let Ok(r) = crate::with_mdk!(c, m => m.create_group(&c.pk(), vec![], cfgd)) {
        let g2 = r.group.mls_group_id.clone();
        let _ = crate::with_mdk!(c, m => m.merge_pending_commit(&g2));
        for _ in 0..3 {
            if let Ok(u) = crate::with_mdk!(c, m => m.self_update(&g2)) {
                let _ = c.process(&u.evolution_event);
            }
        }
    }
}

pub fn snap(c: &Client, w: &World, pool_ids: &[nostr::EventId], wids: &[nostr::EventId]) -> StateRec {
    let key = c.key(pool_ids, wids).to_string();
    let g = c.group_obs(&w.gid);
    StateRec { key_hash: h64(&key), obs_hash: 0, g, dedup: vec![], snap_queue: vec![], snap_stored: vec![], depth: 0, parent: None, key_json: None, auto_pending: false, send_ok: None, foreign_msgs: 0, welcome_states: vec![], welcome_dedup: vec![], routes: vec![] }
}

/// Restart positions on one unforked client. The pair search above forks both replicas between any two steps
/// (a fork gives a new connection), so what a call leaves behind *on the connection* (an open transaction, an
/// unreleased savepoint) never reaches the next call there. Here one client keeps its connection through the
/// whole winning-branch history, delivered in canonical order; for every position k the same history is run with
/// a real restart (close = discard the connection, reopen the file) after step k, and must end in the same state
/// with the same results.
pub fn linear_restarts(w: &World, member: &str, rep: &mut Report) {
    let wids = w.welcome_ids();
    let spine_events: Vec<usize> = w.settle_order.iter().copied().filter(|i| {
        let p = &w.pool[*i];
        match p.kind {
            EvKind::Commit => p.child.as_ref().map(|c| crate::props_e1::on_spine(w, c)).unwrap_or(false),
            _ => crate::props_e1::on_spine(w, &p.node),
        }
    }).collect();
    // causal order: by depth of the node the event was created in, commits after the messages/proposals of their node
    let mut seq = spine_events.clone();
    seq.sort_by_key(|i| (w.pool[*i].node.len(), w.pool[*i].kind == EvKind::Commit, *i));
    let n = seq.len();
    let run = |restart_after: Option<usize>| -> (Vec<String>, String) {
        let mut c = w.initial[member].fork();
        let mut results = Vec::new();
        for (k, i) in seq.iter().enumerate() {
            let out = step_on(w, c, Action::Deliver(*i));
            results.push(out.result);
            c = out.client;
            if restart_after == Some(k) {
                c = c.restart();
            }
        }
        (results, c.obs(&wids).to_string())
    };
    let (ref_results, ref_obs) = run(None);
    for k in 0..n {
        let (res, obs) = run(Some(k));
        rep.case(&format!("linear|{}|restart-after-step-{k}|{}", w.sc.name, res.join("+")));
        rep.evaluations += 1;
        let step_class = event_class(w, member, seq[k]);
        if res != ref_results {
            let first = (0..n).find(|j| res[*j] != ref_results[*j]).unwrap_or(0);
            rep.finding(
                format!("C11|unforked-history|result-differs|restart-after({step_class})|at({})|never-restarted={}|restarted={}", event_class(w, member, seq[first]), ref_results[first], res[first]),
                format!("member {member}: history [{}] on one connection; with a restart after step {k} ({}) step {first} answers {} instead of {}", seq.iter().map(|i| w.pool[*i].label.clone()).collect::<Vec<_>>().join(" ; "), w.pool[seq[k]].label, res[first], ref_results[first]),
                json!({"scenario": w.sc, "backend": "Sqlite", "member": member, "sequence": seq, "restart_after_step": k}),
            );
        } else if obs != ref_obs {
            rep.finding(
                format!("C11|unforked-history|obs-differs|restart-after({step_class})"),
                format!("member {member}: history [{}] on one connection; with a restart after step {k} ({}) the final observable state differs from the run without restart", seq.iter().map(|i| w.pool[*i].label.clone()).collect::<Vec<_>>().join(" ; "), w.pool[seq[k]].label),
                json!({"scenario": w.sc, "backend": "Sqlite", "member": member, "sequence": seq, "restart_after_step": k, "never_restarted": ref_obs, "restarted": obs}),
            );
        }
    }
    rep.states += n as u64;
    rep.transitions += (n * (n + 1)) as u64;
}

/// C01 on one unforked SQLite client: every published event in canonical order (winning branch first, causal),
/// repeated until nothing changes, on ONE connection. The graphs fork before every step and so never carry what a
/// call left on the connection into the next call; this run does. The end state must be the MIP-03 reference.
pub fn unforked_convergence(w: &World, member: &str, rep: &mut Report) {
    let pool_ids = w.pool_ids();
    let wids = w.welcome_ids();
    let root_epoch = w.nodes[&vec![]].core.epoch;
    let mut c = w.initial[member].fork();
    let mut results: Vec<String> = Vec::new();
    for _round in 0..(w.pool.len() + 2) {
        let before = c.key(&pool_ids, &wids).to_string();
        for &i in &w.settle_order {
            let ep = c.group_obs(&w.gid).and_then(|g| g.mls.map(|m| m.epoch)).unwrap_or(0);
            if (w.pool[i].node.len() as u64) > ep.saturating_sub(root_epoch) {
                continue;
            }
            let out = step_on(w, c, Action::Deliver(i));
            results.push(format!("{}->{}", event_class(w, member, i), out.result));
            c = out.client;
        }
        if c.key(&pool_ids, &wids).to_string() == before {
            break;
        }
    }
    let rec = snap(&c, w, &pool_ids, &wids);
    let cls = crate::props_e1::classify(w, member, &rec);
    rep.case(&format!("unforked|{}|{}|{cls:?}", w.sc.name, member_role(w, member)));
    rep.evaluations += 1;
    rep.transitions += results.len() as u64;
    if !matches!(cls, crate::props_e1::Conv::Ok | crate::props_e1::Conv::Skip) {
        rep.finding(
            format!("C01|unforked-sqlite-history|{cls:?}|{}", member_role(w, member)),
            format!("member {member}: every event of scenario {} offered in canonical order on one SQLite connection until nothing changes ends {cls:?}: {}", w.sc.name, results.join(" ; ")),
            json!({"scenario": w.sc, "backend": "Sqlite", "member": member, "results": results}),
        );
    }
}

/// Restart hazards on one unforked SQLite client (scripted, enumerated): (a) calls that are *refused* (reads for a group
/// the client does not hold) at every position of a short history, (b) a restart that finds expired snapshots to prune
/// (time-to-live of one second, the history spread over wall-clock seconds). Everything stored after such a call or such
/// a restart must still be there after the next restart: the final observable state equals the run without any of it.
pub fn restart_hazards(rep: &mut Report) {
    use mdk_core::prelude::*;
    let mut sc = crate::families::base("c11-hazards", &["A", "B", "Z"], &["A", "B"], &[], vec![crate::scenario::act("A", ActKind::Rename("one".into()), 10).then(vec![crate::scenario::act("B", ActKind::Msg("after-one".into()), 5), crate::scenario::act("A", ActKind::Rename("two".into()), 20)])]);
    sc.cfg.snapshot_ttl_seconds = 1;
    let w = match build_world(&sc, Bk::Sqlite) {
        Ok(w) => w,
        Err(e) => {
            rep.machinery_errors.push(format!("c11 hazards world: {}", e.0));
            return;
        }
    };
    let wids = w.welcome_ids();
    let mut seq: Vec<usize> = w.settle_order.iter().copied().filter(|i| match w.pool[*i].kind { EvKind::Commit => w.pool[*i].child.as_ref().map(|c| crate::props_e1::on_spine(&w, c)).unwrap_or(false), _ => crate::props_e1::on_spine(&w, &w.pool[*i].node) }).collect();
    seq.sort_by_key(|i| (w.pool[*i].node.len(), w.pool[*i].kind == EvKind::Commit, *i));
    let bogus = GroupId::from_slice(&[0xEE; 16]);
    let refused_calls = |c: &Client| -> Vec<String> {
        let mut v = Vec::new();
        v.push(format!("get_messages:{}", crate::with_mdk!(c, m => m.get_messages(&bogus, None)).is_err()));
        v.push(format!("get_relays:{}", crate::with_mdk!(c, m => m.get_relays(&bogus)).is_err()));
        v.push(format!("get_members:{}", crate::with_mdk!(c, m => m.get_members(&bogus)).is_err()));
        v.push(format!("get_group:{}", crate::with_mdk!(c, m => m.get_group(&bogus)).map(|g| g.is_none()).unwrap_or(true)));
        v.push(format!("create_message:{}", crate::with_mdk!(c, m => m.create_message(&bogus, rumor(&c.keys, "nowhere", now()))).is_err()));
        v.push(format!("self_update:{}", crate::with_mdk!(c, m => m.self_update(&bogus)).is_err()));
        v
    };
    let run = |refused_at: Option<usize>, ttl_restart_after: Option<usize>, final_restart: bool| -> (Vec<String>, String) {
        let mut c = w.initial["Z"].fork();
        let mut results = Vec::new();
        for (k, i) in seq.iter().enumerate() {
            if refused_at == Some(k) {
                let _ = refused_calls(&c);
            }
            let out = step_on(&w, c, Action::Deliver(*i));
            results.push(out.result);
            c = out.client;
            if ttl_restart_after == Some(k) {
                std::thread::sleep(std::time::Duration::from_millis(2100));
                c = c.restart();
            }
        }
        if refused_at == Some(seq.len()) {
            let _ = refused_calls(&c);
        }
        if final_restart {
            c = c.restart();
        }
        (results, c.obs(&wids).to_string())
    };
    let (ref_results, ref_obs) = run(None, None, false);
    let mut cases: Vec<(String, Option<usize>, Option<usize>)> = Vec::new();
    for k in 0..=seq.len() {
        cases.push((format!("refused-calls-before-step-{k}"), Some(k), None));
    }
    for k in 0..seq.len() {
        if w.pool[seq[k]].kind == EvKind::Commit {
            cases.push((format!("restart-with-expired-snapshots-after-step-{k}"), None, Some(k)));
        }
    }
    for (label, refused_at, ttl_after) in cases {
        let (res, obs) = run(refused_at, ttl_after, true);
        rep.case(&format!("hazard|{label}|{}", res.join("+")));
        rep.evaluations += 1;
        let kind = if refused_at.is_some() { "refused-calls" } else { "restart-that-prunes-expired-snapshots" };
        if res != ref_results {
            rep.finding(format!("C11|restart-hazard|{kind}|results-differ"), format!("{label}: the deliveries answer {res:?} instead of {ref_results:?}"), json!({"case": label, "backend": "Sqlite"}));
        } else if obs != ref_obs {
            rep.finding(format!("C11|restart-hazard|{kind}|state-after-the-next-restart-differs"), format!("{label}: after the history and one more restart the observable state differs from the run without it (something stored in between did not reach the file)"), json!({"case": label, "backend": "Sqlite", "with": obs, "without": ref_obs}));
        }
    }
    rep.states += 1;
}
