//! C13: encrypted databases. Three parts, all exhaustive over stated finite spaces:
//!  A. constructor x file-state matrix: every sequence (depth <= 3) of constructor calls on one path,
//!     starting from every file state, against a small reference model of the documented rules;
//!  B. at-rest scan: a scripted history with planted canaries on an encrypted database; after every API
//!     call, at every storage tick (observer) and after a process death at every tick (E4) every file in
//!     the database directory and the temp directory is scanned for every canary / secret;
//!  C. concurrent first opens: 2..3 threads calling constructors on the same path under the controlled
//!     scheduler (E3), every schedule up to a preemption bound, compared with the sequential orders.

use std::collections::{BTreeMap, BTreeSet};
use std::os::unix::fs::PermissionsExt;
use std::path::{Path, PathBuf};
use std::sync::atomic::{AtomicU64, Ordering};
use std::sync::{Arc, Mutex};

use mdk_sqlite_storage::{EncryptionConfig, MdkSqliteStorage};
use mdk_storage_traits::groups::GroupStorage;
use serde::{Deserialize, Serialize};
use serde_json::json;

use crate::lab::{h64, hx, scratch_root};
use crate::report::Report;
use crate::sched;
use crate::storex;

pub fn init_keyring() {
    static ONCE: std::sync::Once = std::sync::Once::new();
    ONCE.call_once(|| {
        let store = keyring_core::mock::Store::new().expect("mock keyring");
        keyring_core::set_default_store(store);
    });
}

static UNIQ: AtomicU64 = AtomicU64::new(0);

fn uniq() -> u64 {
    UNIQ.fetch_add(1, Ordering::Relaxed)
}

#[derive(Debug, Clone, Copy, PartialEq, Eq, Hash, PartialOrd, Ord, Serialize, Deserialize)]
pub enum Ctor {
    /// keyring-managed, key id 0 / 1
    New(u8),
    /// caller key 0 / 1
    WithKey(u8),
    Unenc,
    /// New(id) while the next read of that keyring entry fails once (locked keychain)
    NewReadFault(u8),
}

fn caller_key(k: u8) -> [u8; 32] {
    [0xC0 + k; 32]
}

fn err_kind(e: &mdk_sqlite_storage::error::Error) -> String {
    use mdk_sqlite_storage::error::Error as E;
    match e {
        E::WrongEncryptionKey => "WrongEncryptionKey".into(),
        E::UnencryptedDatabaseWithEncryption => "UnencryptedDatabaseWithEncryption".into(),
        E::KeyringEntryMissingForExistingDatabase { .. } => "KeyringEntryMissing".into(),
        E::Keyring(_) => "Keyring".into(),
        E::KeyringNotInitialized(_) => "KeyringNotInitialized".into(),
        E::FilePermission(_) => "FilePermission".into(),
        E::Rusqlite(_) => "Rusqlite".into(),
        E::Database(_) => "Database".into(),
        E::Refinery(_) => "Refinery".into(),
        other => format!("{other:?}").split(['(', ' ', '{']).next().unwrap_or("Other").to_string(),
    }
}

fn open(c: Ctor, path: &Path, svc: &str) -> Result<MdkSqliteStorage, String> {
    match c {
        Ctor::New(id) => MdkSqliteStorage::new(path, svc, &format!("key{id}")),
        Ctor::NewReadFault(id) => {
            if let Ok(entry) = keyring_core::Entry::new(svc, &format!("key{id}")) {
                if let Some(cred) = entry.as_any().downcast_ref::<keyring_core::mock::Cred>() {
                    cred.set_error(keyring_core::Error::PlatformFailure("keychain is locked".into()));
                }
            }
            MdkSqliteStorage::new(path, svc, &format!("key{id}"))
        }
        Ctor::WithKey(k) => MdkSqliteStorage::new_with_key(path, EncryptionConfig::new(caller_key(k))),
        Ctor::Unenc => MdkSqliteStorage::new_unencrypted(path),
    }
    .map_err(|e| err_kind(&e))
}

fn keyring_key(svc: &str, id: u8) -> Option<Vec<u8>> {
    mdk_sqlite_storage::keyring::get_db_key(svc, &format!("key{id}")).ok().flatten().map(|c| c.key().to_vec())
}

const CANARY_NAME: &str = "CANARYNAMEq7Zx";

fn write_marker(s: &MdkSqliteStorage, tag: u8) -> bool {
    let mut g = storex::mk_group(tag, tag, tag, 1, true);
    g.name = format!("{CANARY_NAME}{tag}");
    s.save_group(g).is_ok()
}

fn markers(s: &MdkSqliteStorage) -> Vec<String> {
    let mut v: Vec<String> = s.all_groups().map(|gs| gs.into_iter().map(|g| g.name).collect()).unwrap_or_else(|_| vec!["ERR".into()]);
    v.sort();
    v
}

fn mode(p: &Path) -> Option<u32> {
    std::fs::metadata(p).ok().map(|m| m.permissions().mode() & 0o777)
}

fn files_in(dir: &Path) -> Vec<PathBuf> {
    let mut out = Vec::new();
    if let Ok(rd) = std::fs::read_dir(dir) {
        for e in rd.flatten() {
            let p = e.path();
            if p.is_dir() {
                out.extend(files_in(&p));
            } else {
                out.push(p);
            }
        }
    }
    out.sort();
    out
}

fn contains(hay: &[u8], needle: &[u8]) -> bool {
    !needle.is_empty() && hay.windows(needle.len()).any(|w| w == needle)
}

// -----------------------------------------------------------------------------------------------
// Part C: concurrent first opens
// -----------------------------------------------------------------------------------------------

#[derive(Debug, Clone, Copy, PartialEq, Eq, Serialize, Deserialize)]
pub enum Pre {
    Missing,
    /// two directory levels above the file are missing as well
    MissingNested,
    /// the keyring already holds key0, the file is missing
    KeyExists,
    /// the file exists, created by New(0)
    EncryptedByKeyring,
    /// empty file (as left by an interrupted creation)
    Empty,
}

#[derive(Debug, Clone, PartialEq, Eq, PartialOrd, Ord)]
struct OpenOutcome {
    results: Vec<String>,
    final_open: String,
    markers: Vec<String>,
    modes: Vec<String>,
    plain_header: bool,
    key_present: Vec<bool>,
}

struct OpenWorld {
    root: PathBuf,
    path: PathBuf,
    svc: String,
}

fn prepare(pre: Pre, session: &str) -> OpenWorld {
    let n = uniq();
    let root = scratch_root().join(format!("opens-{session}-{n}"));
    let _ = std::fs::remove_dir_all(&root);
    std::fs::create_dir_all(&root).expect("root");
    let _ = std::fs::set_permissions(&root, std::fs::Permissions::from_mode(0o700));
    let svc = format!("svc-{session}-{n}");
    let path = match pre {
        Pre::MissingNested => root.join("a").join("b").join("db.sqlite"),
        _ => root.join("d").join("db.sqlite"),
    };
    match pre {
        Pre::Missing | Pre::MissingNested => {}
        Pre::KeyExists => {
            let _ = mdk_sqlite_storage::keyring::get_or_create_db_key(&svc, "key0");
        }
        Pre::EncryptedByKeyring => {
            let s = open(Ctor::New(0), &path, &svc).expect("pre-create");
            write_marker(&s, 9);
        }
        Pre::Empty => {
            std::fs::create_dir_all(path.parent().unwrap()).unwrap();
            let _ = std::fs::set_permissions(path.parent().unwrap(), std::fs::Permissions::from_mode(0o700));
            std::fs::write(&path, b"").unwrap();
            let _ = std::fs::set_permissions(&path, std::fs::Permissions::from_mode(0o600));
        }
    }
    OpenWorld { root, path, svc }
}

fn observe(w: &OpenWorld, results: Vec<String>, ctors: &[Ctor]) -> OpenOutcome {
    // the constructor that should be able to open what is there: the first that succeeded
    let winner = ctors.iter().zip(results.iter()).find(|(_, r)| r.starts_with("ok")).map(|(c, _)| *c);
    let (final_open, markers_v) = match winner {
        Some(c) => match open(c, &w.path, &w.svc) {
            Ok(s) => ("ok".to_string(), markers(&s)),
            Err(e) => (format!("Err({e})"), vec![]),
        },
        None => ("nobody-succeeded".into(), vec![]),
    };
    let mut modes = Vec::new();
    let mut d = w.path.parent();
    while let Some(p) = d {
        if p == w.root {
            break;
        }
        if let Some(m) = mode(p) {
            modes.push(format!("dir:{:o}", m));
        }
        d = p.parent();
    }
    for f in files_in(&w.root) {
        if let Some(m) = mode(&f) {
            modes.push(format!("file{}:{:o}", f.file_name().and_then(|n| n.to_str()).unwrap_or("").trim_start_matches("db.sqlite"), m));
        }
    }
    let header = std::fs::read(&w.path).ok().map(|b| b.starts_with(b"SQLite format 3\0")).unwrap_or(false);
    OpenOutcome { results, final_open, markers: markers_v, modes, plain_header: header, key_present: vec![keyring_key(&w.svc, 0).is_some(), keyring_key(&w.svc, 1).is_some()] }
}

fn thread_body(t: usize, c: Ctor, w: &OpenWorld, kinds: &Mutex<Vec<String>>) -> String {
    match open(c, &w.path, &w.svc) {
        Ok(s) => {
            let wrote = write_marker(&s, t as u8);
            format!("ok:{}", if wrote { "wrote" } else { "write-failed" })
        }
        Err(e) => {
            // which error a refused constructor reports is not part of the comparison (two constructors
            // of different kinds racing on one path see the other's half-made file)
            kinds.lock().unwrap()[t] = e;
            "Err".to_string()
        }
    }
}

pub struct OpenCfg {
    pub name: &'static str,
    pub pre: Pre,
    pub ctors: Vec<Ctor>,
    pub bound: usize,
}

pub fn open_configs(thorough: bool) -> Vec<OpenCfg> {
    let b2 = if thorough { 3 } else { 2 };
    let mut v = vec![
        OpenCfg { name: "new||new missing", pre: Pre::Missing, ctors: vec![Ctor::New(0), Ctor::New(0)], bound: b2 },
        OpenCfg { name: "new||new missing-nested", pre: Pre::MissingNested, ctors: vec![Ctor::New(0), Ctor::New(0)], bound: 2 },
        OpenCfg { name: "new||new key-exists", pre: Pre::KeyExists, ctors: vec![Ctor::New(0), Ctor::New(0)], bound: 2 },
        OpenCfg { name: "new||new existing", pre: Pre::EncryptedByKeyring, ctors: vec![Ctor::New(0), Ctor::New(0)], bound: 2 },
        OpenCfg { name: "new||new empty-file", pre: Pre::Empty, ctors: vec![Ctor::New(0), Ctor::New(0)], bound: 2 },
        OpenCfg { name: "with_key||with_key missing", pre: Pre::Missing, ctors: vec![Ctor::WithKey(0), Ctor::WithKey(0)], bound: 2 },
        OpenCfg { name: "new||unencrypted missing", pre: Pre::Missing, ctors: vec![Ctor::New(0), Ctor::Unenc], bound: 2 },
        OpenCfg { name: "new(0)||new(1) missing", pre: Pre::Missing, ctors: vec![Ctor::New(0), Ctor::New(1)], bound: 2 },
    ];
    if thorough {
        v.push(OpenCfg { name: "new||new||new missing", pre: Pre::Missing, ctors: vec![Ctor::New(0), Ctor::New(0), Ctor::New(0)], bound: 2 });
        v.push(OpenCfg { name: "with_key(0)||with_key(1) missing", pre: Pre::Missing, ctors: vec![Ctor::WithKey(0), Ctor::WithKey(1)], bound: 2 });
        v.push(OpenCfg { name: "new||with_key missing", pre: Pre::Missing, ctors: vec![Ctor::New(0), Ctor::WithKey(0)], bound: 2 });
        v.push(OpenCfg { name: "unencrypted||unencrypted missing-nested", pre: Pre::MissingNested, ctors: vec![Ctor::Unenc, Ctor::Unenc], bound: 2 });
    }
    v
}

fn perms(n: usize) -> Vec<Vec<usize>> {
    if n == 0 {
        return vec![vec![]];
    }
    let mut out = Vec::new();
    for p in perms(n - 1) {
        for i in 0..=p.len() {
            let mut q = p.clone();
            q.insert(i, n - 1);
            out.push(q);
        }
    }
    out
}

pub fn concurrent_opens(rep: &mut Report, thorough: bool) {
    init_keyring();
    sched::install();
    let cfgs = open_configs(thorough);
    let prop = rep.prop.clone();
    let results: Mutex<Vec<(String, u64, u64, usize, usize, bool, Vec<(String, String, serde_json::Value)>)>> = Mutex::new(Vec::new());
    std::thread::scope(|sc| {
        for (ci, cfg) in cfgs.iter().enumerate() {
            let results = &results;
            let prop = prop.clone();
            sc.spawn(move || {
                let session = format!("{}-{ci}", std::process::id());
                let n = cfg.ctors.len();
                // sequential reference
                let mut allowed: BTreeSet<OpenOutcome> = BTreeSet::new();
                for order in perms(n) {
                    let w = prepare(cfg.pre, &session);
                    let mut res = vec![String::new(); n];
                    let kinds = Mutex::new(vec![String::new(); n]);
                    for t in order {
                        res[t] = thread_body(t, cfg.ctors[t], &w, &kinds);
                    }
                    allowed.insert(observe(&w, res, &cfg.ctors));
                    let _ = std::fs::remove_dir_all(&w.root);
                }
                let world: Mutex<Option<Arc<OpenWorld>>> = Mutex::new(None);
                let res: Mutex<Vec<String>> = Mutex::new(vec![String::new(); n]);
                let kinds: Mutex<Vec<String>> = Mutex::new(vec![String::new(); n]);
                let body = |t: usize| {
                    let w = world.lock().unwrap().clone().unwrap();
                    let r = thread_body(t, cfg.ctors[t], &w, &kinds);
                    res.lock().unwrap()[t] = r;
                };
                let mut reset = || {
                    if let Some(w) = world.lock().unwrap().take() {
                        let _ = std::fs::remove_dir_all(&w.root);
                    }
                    *world.lock().unwrap() = Some(Arc::new(prepare(cfg.pre, &session)));
                    *res.lock().unwrap() = vec![String::new(); n];
                    *kinds.lock().unwrap() = vec![String::new(); n];
                };
                let mut findings: Vec<(String, String, serde_json::Value)> = Vec::new();
                let mut seen: BTreeSet<OpenOutcome> = BTreeSet::new();
                let mut visit = |choices: &[usize], e: &sched::Execution| -> bool {
                    let labels: Vec<&str> = e.trace.iter().map(|p| p.label).collect();
                    if let Some(a) = &e.aborted {
                        let kind = if a.starts_with("deadlock") { "deadlock" } else { "scheduler" };
                        findings.push((format!("{prop}|concurrent-open|{kind}|{}", cfg.name), format!("{a}; schedule {choices:?}"), json!({"config": cfg.name, "schedule": choices, "points": labels})));
                        return true;
                    }
                    if !e.panics.is_empty() {
                        findings.push((format!("{prop}|concurrent-open|panic|{}", cfg.name), format!("constructor panicked: {}; schedule {choices:?}", e.panics[0].1), json!({"config": cfg.name, "schedule": choices, "points": labels})));
                        return true;
                    }
                    let w = world.lock().unwrap().clone().unwrap();
                    let oc = observe(&w, res.lock().unwrap().clone(), &cfg.ctors);
                    if !seen.insert(oc.clone()) {
                        return true;
                    }
                    if prop == "C13" {
                        // C13 asks for safety, not for every racing call to succeed: what a successful call wrote is
                        // there when the database is opened again the same way (one key, reused), modes are owner-only,
                        // an encrypting constructor never leaves a plaintext header
                        let mut what = Vec::new();
                        let winners: Vec<usize> = (0..n).filter(|t| oc.results[*t].starts_with("ok")).collect();
                        if !winners.is_empty() {
                            if oc.final_open != "ok" {
                                what.push(format!("reopen={}", oc.final_open));
                            }
                            for t in &winners {
                                if oc.results[*t] != "ok:wrote" || !oc.markers.contains(&format!("{CANARY_NAME}{t}")) {
                                    what.push("data-of-a-successful-open-lost".to_string());
                                }
                            }
                            let enc = winners.iter().any(|t| cfg.ctors[*t] != Ctor::Unenc);
                            if enc && oc.plain_header {
                                what.push("plaintext-header".into());
                            }
                        }
                        // modes[0] is the directory that holds the database (SECURITY.md: 0700); directories above it
                        // that create_dir_all had to make are listed in the evidence only
                        if oc.modes.first().map(|m| m != "dir:700").unwrap_or(false) || oc.modes.iter().any(|m| m.starts_with("file") && !m.ends_with(":600")) {
                            what.push(format!("modes={}", oc.modes.join(",")));
                        }
                        what.sort();
                        what.dedup();
                        if !what.is_empty() {
                            findings.push((
                                format!("{prop}|concurrent-open|unsafe|{}|{}", cfg.name, what.join("+")),
                                format!("{}: under schedule {choices:?} the calls returned {:?} ({:?}), reopen {}, data {:?}, modes {:?}", cfg.name, oc.results, kinds.lock().unwrap(), oc.final_open, oc.markers, oc.modes),
                                json!({"config": cfg.name, "schedule": choices, "points": labels, "results": oc.results, "reopen": oc.final_open, "markers": oc.markers, "modes": oc.modes}),
                            ));
                        }
                    } else if !allowed.contains(&oc) {
                        // name what differs from the sequential outcomes
                        let mut what = Vec::new();
                        if !allowed.iter().any(|a| a.results == oc.results) {
                            let mut r = oc.results.clone();
                            r.sort();
                            what.push(format!("results={}", r.join("/")));
                        }
                        if !allowed.iter().any(|a| a.final_open == oc.final_open) {
                            what.push(format!("reopen={}", oc.final_open));
                        }
                        if !allowed.iter().any(|a| a.markers == oc.markers) {
                            what.push("data-differs".into());
                        }
                        if !allowed.iter().any(|a| a.modes == oc.modes) {
                            what.push(format!("modes={}", oc.modes.join(",")));
                        }
                        if !allowed.iter().any(|a| a.plain_header == oc.plain_header) {
                            what.push(format!("plain-header={}", oc.plain_header));
                        }
                        if !allowed.iter().any(|a| a.key_present == oc.key_present) {
                            what.push(format!("keys={:?}", oc.key_present));
                        }
                        if what.is_empty() {
                            // every field occurs in some sequential outcome, the combination does not: compare with the
                            // sequential outcomes that have the same call results
                            for a in allowed.iter().filter(|a| a.results == oc.results) {
                                if a.markers != oc.markers {
                                    what.push("data-differs-for-these-results".into());
                                }
                                if a.key_present != oc.key_present {
                                    what.push(format!("keyring-entries={:?}-sequentially-{:?}", oc.key_present, a.key_present));
                                }
                                if a.plain_header != oc.plain_header {
                                    what.push(format!("plain-header={}", oc.plain_header));
                                }
                                if a.final_open != oc.final_open {
                                    what.push(format!("reopen={}", oc.final_open));
                                }
                                if a.modes != oc.modes {
                                    what.push(format!("modes={}", oc.modes.join(",")));
                                }
                            }
                            what.sort();
                            what.dedup();
                            if what.is_empty() {
                                what.push("combination".into());
                            }
                        }
                        findings.push((
                            format!("{prop}|concurrent-open|not-sequential|{}|{}", cfg.name, what.join("+")),
                            format!("{}: under schedule {choices:?} the calls returned {:?} ({:?}), reopen {}, data {:?}: no sequential order of the calls does that", cfg.name, oc.results, kinds.lock().unwrap(), oc.final_open, oc.markers),
                            json!({"config": cfg.name, "schedule": choices, "points": labels, "results": oc.results, "reopen": oc.final_open, "markers": oc.markers, "modes": oc.modes, "sequential_outcomes": allowed.iter().map(|a| format!("{:?} reopen {} data {:?}", a.results, a.final_open, a.markers)).collect::<Vec<_>>()}),
                        ));
                    }
                    true
                };
                let cap = if thorough { 60_000 } else { 4_000 };
                let ex = sched::explore(n, Some(cfg.bound), cap, &body, &mut visit, &mut reset);
                if let Some(w) = world.lock().unwrap().take() {
                    let _ = std::fs::remove_dir_all(&w.root);
                }
                results.lock().unwrap().push((cfg.name.to_string(), ex.schedules, ex.decisions, ex.max_points, seen.len(), ex.bound_hit, findings));
            });
        }
    });
    for (name, schedules, decisions, maxp, outcomes, capped, findings) in results.into_inner().unwrap() {
        rep.states += 1;
        rep.evaluations += schedules;
        rep.transitions += decisions;
        rep.add_count(&format!("open_schedules[{name}]"), schedules);
        rep.add_count(&format!("open_outcomes[{name}]"), outcomes as u64);
        rep.add_count(&format!("open_max_points[{name}]"), maxp as u64);
        rep.distinct.insert(h64(&format!("open{name}{outcomes}")));
        if capped {
            rep.exhaustive = false;
            rep.extra.insert(format!("open_cap[{name}]"), json!("schedule cap hit"));
        }
        for (s, w, d) in findings {
            rep.finding(s, w, d);
        }
    }
}

// -----------------------------------------------------------------------------------------------
// Part A: constructor x file-state matrix, all sequences up to a depth, against a reference model
// -----------------------------------------------------------------------------------------------

#[derive(Debug, Clone, Copy, PartialEq, Eq, Serialize, Deserialize)]
pub enum FileInit {
    Missing,
    Empty,
    Plain,
    EncCaller0,
    EncKeyring0,
    Garbage,
}

#[derive(Debug, Clone, PartialEq, Eq)]
enum MKey {
    Caller(u8),
    Ring(u8),
}

#[derive(Debug, Clone, PartialEq, Eq)]
enum MFile {
    Missing,
    Empty,
    Plain(BTreeSet<String>),
    Enc(MKey, BTreeSet<String>),
    Garbage,
}

#[derive(Debug, Clone)]
struct MatrixModel {
    files: Vec<MFile>,
    ring: [bool; 2],
}

impl MatrixModel {
    /// Some(markers visible) when the constructor must succeed, None when it must be refused
    fn open(&mut self, c: Ctor, p: usize) -> Option<BTreeSet<String>> {
        let f = self.files[p].clone();
        match c {
            Ctor::Unenc => match f {
                MFile::Missing | MFile::Empty => {
                    self.files[p] = MFile::Plain(BTreeSet::new());
                    Some(BTreeSet::new())
                }
                MFile::Plain(m) => Some(m),
                _ => None,
            },
            Ctor::WithKey(k) => match f {
                MFile::Missing => {
                    self.files[p] = MFile::Enc(MKey::Caller(k), BTreeSet::new());
                    Some(BTreeSet::new())
                }
                MFile::Enc(MKey::Caller(k2), m) if k2 == k => Some(m),
                _ => None,
            },
            Ctor::New(id) | Ctor::NewReadFault(id) => match f {
                MFile::Missing => {
                    self.ring[id as usize] = true;
                    self.files[p] = MFile::Enc(MKey::Ring(id), BTreeSet::new());
                    Some(BTreeSet::new())
                }
                // an empty file whose key is already in the keyring: a creation in progress elsewhere
                MFile::Empty if self.ring[id as usize] => {
                    self.files[p] = MFile::Enc(MKey::Ring(id), BTreeSet::new());
                    Some(BTreeSet::new())
                }
                MFile::Enc(MKey::Ring(i2), m) if i2 == id && self.ring[id as usize] => Some(m),
                _ => None,
            },
        }
    }
    fn add_marker(&mut self, p: usize, m: String) {
        match &mut self.files[p] {
            MFile::Plain(s) | MFile::Enc(_, s) => {
                s.insert(m);
            }
            _ => {}
        }
    }
}

/// file names that are not valid UTF-8 (any byte string is a file name on this platform) in the odd-names pass
static ODD_NAMES: std::sync::atomic::AtomicBool = std::sync::atomic::AtomicBool::new(false);

fn matrix_paths(root: &Path) -> [PathBuf; 2] {
    if ODD_NAMES.load(Ordering::Relaxed) {
        use std::os::unix::ffi::OsStrExt;
        let name = std::ffi::OsStr::from_bytes(b"db-\xff\xfe.sqlite");
        return [root.join("d").join(name), root.join("a").join("b").join(name)];
    }
    [root.join("d").join("db.sqlite"), root.join("a").join("b").join("db.sqlite")]
}

pub fn matrix_odd_names(rep: &mut Report, depth: usize) {
    ODD_NAMES.store(true, Ordering::Relaxed);
    matrix(rep, depth, 0o022);
    matrix(rep, 1, 0o027);
    ODD_NAMES.store(false, Ordering::Relaxed);
}

fn matrix_init(init: FileInit, root: &Path, svc: &str) -> Result<MatrixModel, String> {
    let paths = matrix_paths(root);
    let p = &paths[0];
    let mut model = MatrixModel { files: vec![MFile::Missing, MFile::Missing], ring: [false, false] };
    let mk_dir = || {
        std::fs::create_dir_all(p.parent().unwrap()).unwrap();
        let _ = std::fs::set_permissions(p.parent().unwrap(), std::fs::Permissions::from_mode(0o700));
    };
    match init {
        FileInit::Missing => {}
        FileInit::Empty => {
            mk_dir();
            std::fs::write(p, b"").unwrap();
            let _ = std::fs::set_permissions(p, std::fs::Permissions::from_mode(0o600));
            model.files[0] = MFile::Empty;
        }
        FileInit::Garbage => {
            mk_dir();
            std::fs::write(p, vec![0x5Au8; 4096]).unwrap();
            let _ = std::fs::set_permissions(p, std::fs::Permissions::from_mode(0o600));
            model.files[0] = MFile::Garbage;
        }
        FileInit::Plain | FileInit::EncCaller0 | FileInit::EncKeyring0 => {
            let c = match init {
                FileInit::Plain => Ctor::Unenc,
                FileInit::EncCaller0 => Ctor::WithKey(0),
                _ => Ctor::New(0),
            };
            // (a constructor that refuses a missing path is a finding of its own, reported by the caller)
            let s = open(c, p, svc).map_err(|e| format!("{c:?} on missing|{e}"))?;
            write_marker(&s, 9);
            drop(s);
            let _ = model.open(c, 0);
            model.add_marker(0, format!("{CANARY_NAME}9"));
        }
    }
    Ok(model)
}

fn scan_for(root: &Path, needles: &[(String, Vec<u8>)]) -> Vec<String> {
    let mut hits = Vec::new();
    for f in files_in(root) {
        let Ok(bytes) = std::fs::read(&f) else { continue };
        for (label, n) in needles {
            if !n.is_empty() && memchr::memmem::find(&bytes, n).is_some() {
                hits.push(format!("{label} in {}", f.file_name().and_then(|x| x.to_str()).unwrap_or("?").replace("db.sqlite", "db").replace("x.sqlite", "db")));
            }
        }
    }
    hits.sort();
    hits.dedup();
    hits
}

pub fn matrix(rep: &mut Report, depth: usize, umask: u32) {
    init_keyring();
    // the process umask decides which bits a freshly created file starts with; the library must end at 0600 / 0700 under any
    let old_umask = unsafe { libc::umask(umask as libc::mode_t) };
    let actions: Vec<(Ctor, usize)> = [Ctor::New(0), Ctor::New(1), Ctor::WithKey(0), Ctor::WithKey(1), Ctor::Unenc, Ctor::NewReadFault(0)].iter().flat_map(|c| [(*c, 0usize), (*c, 1usize)]).collect();
    let inits = [FileInit::Missing, FileInit::Empty, FileInit::Plain, FileInit::EncCaller0, FileInit::EncKeyring0, FileInit::Garbage];
    let mut seqs: Vec<Vec<(Ctor, usize)>> = vec![vec![]];
    let mut all: Vec<Vec<(Ctor, usize)>> = Vec::new();
    for _ in 0..depth {
        let mut nx = Vec::new();
        for s in &seqs {
            for a in &actions {
                let mut q = s.clone();
                q.push(*a);
                nx.push(q);
            }
        }
        seqs = nx;
    }
    all.extend(seqs);
    let work: Vec<(FileInit, Vec<(Ctor, usize)>)> = inits.iter().flat_map(|i| all.iter().map(move |s| (*i, s.clone()))).collect();
    let next = std::sync::atomic::AtomicUsize::new(0);
    let findings: Mutex<Vec<(String, String, serde_json::Value)>> = Mutex::new(Vec::new());
    let opens = AtomicU64::new(0);
    let cells: Mutex<BTreeSet<String>> = Mutex::new(BTreeSet::new());
    std::thread::scope(|sc| {
        for t in 0..crate::e1::threads() {
            let (work, next, findings, opens, cells) = (&work, &next, &findings, &opens, &cells);
            sc.spawn(move || loop {
                let i = next.fetch_add(1, Ordering::Relaxed);
                if i >= work.len() {
                    break;
                }
                let (init, seq) = &work[i];
                let n = uniq();
                let root = scratch_root().join(format!("matrix-{}-{t}-{n}", std::process::id()));
                let _ = std::fs::remove_dir_all(&root);
                std::fs::create_dir_all(&root).unwrap();
                let svc = format!("msvc-{}-{n}", std::process::id());
                let mut model = match matrix_init(*init, &root, &svc) {
                    Ok(m) => m,
                    Err(e) => {
                        findings.lock().unwrap().push((format!("C13|matrix|refused-but-must-open|{e}"), format!("preparing the {init:?} file state: the constructor failed on a missing path ({e})"), json!({"init": format!("{init:?}")})));
                        let _ = std::fs::remove_dir_all(&root);
                        continue;
                    }
                };
                let paths = matrix_paths(&root);
                // in the 027 pass a database file that exists beforehand is group/world readable (restored with cp, say):
                // the first successful open must leave it owner-only
                let lax_existing = umask == 0o027 && !matches!(init, FileInit::Missing);
                if lax_existing {
                    let _ = std::fs::set_permissions(&paths[0], std::fs::Permissions::from_mode(0o644));
                    // ... and so are left-over sidecar files next to it (whichever of them survive the open must end owner-only)
                    for ext in ["-wal", "-shm", "-journal"] {
                        let mut n = paths[0].as_os_str().to_os_string();
                        n.push(ext);
                        let side = PathBuf::from(n);
                        if !side.exists() {
                            let _ = std::fs::write(&side, b"");
                        }
                        let _ = std::fs::set_permissions(&side, std::fs::Permissions::from_mode(0o644));
                    }
                }
                let mut opened_ok = [!lax_existing, true];
                let mut ring_bytes: [Option<Vec<u8>>; 2] = [keyring_key(&svc, 0), keyring_key(&svc, 1)];
                let canary = vec![("group-name canary".to_string(), CANARY_NAME.as_bytes().to_vec())];
                for (step, (c, p)) in seq.iter().enumerate() {
                    let before_state = model.files[*p].clone();
                    let before_bytes = std::fs::read(&paths[*p]).ok();
                    let model_before = model.clone();
                    let mut expect = model.open(*c, *p);
                    let got = open(*c, &paths[*p], &svc);
                    if let Ctor::NewReadFault(_) = c {
                        // with the keyring read failing the call may succeed or fail; if it fails nothing may have changed
                        // except that the file may have been pre-created (empty)
                        if got.is_err() {
                            model = model_before;
                            if matches!(model.files[*p], MFile::Missing) && paths[*p].exists() {
                                model.files[*p] = MFile::Empty;
                            }
                            expect = None;
                        }
                        // a pending injected error must not leak into the next step
                        let _ = keyring_key(&svc, 0);
                    }
                    opens.fetch_add(1, Ordering::Relaxed);
                    let cell = format!("{c:?} on {}", match &before_state { MFile::Missing => "missing".to_string(), MFile::Empty => "empty".into(), MFile::Plain(_) => "plain".into(), MFile::Enc(k, _) => format!("encrypted({k:?})"), MFile::Garbage => "garbage".into() });
                    cells.lock().unwrap().insert(format!("{cell} keyring={:?}", model.ring));
                    let ctx = json!({"init": format!("{init:?}"), "sequence": seq.iter().map(|(c, p)| format!("{c:?}@path{p}")).collect::<Vec<_>>(), "step": step});
                    let mut bad = |sig: String, what: String| findings.lock().unwrap().push((sig, what, ctx.clone()));
                    match (&expect, &got) {
                        (Some(m), Ok(s)) => {
                            opened_ok[*p] = true;
                            let seen: BTreeSet<String> = markers(s).into_iter().collect();
                            if seen != *m {
                                bad(format!("C13|matrix|data-differs-after-reopen|{cell}"), format!("{cell}: the opened database shows {seen:?}, written before: {m:?}"));
                            }
                            let tag = (step as u8) + 1 + 10 * (*p as u8);
                            if write_marker(s, tag) {
                                model.add_marker(*p, format!("{CANARY_NAME}{tag}"));
                            }
                        }
                        (None, Err(_)) => {
                            // a refused open leaves a database that holds data untouched
                            if matches!(before_state, MFile::Plain(_) | MFile::Enc(..)) && std::fs::read(&paths[*p]).ok() != before_bytes {
                                bad(format!("C13|matrix|refused-open-changed-the-file|{cell}"), format!("{cell}: the constructor failed but the database file changed"));
                            }
                        }
                        (Some(_), Err(e)) => bad(format!("C13|matrix|refused-but-must-open|{cell}|{e}"), format!("{cell}: the constructor failed with {e} although it holds the right key / the file is new")),
                        (None, Ok(s)) => {
                            let seen = markers(s);
                            bad(format!("C13|matrix|opened-but-must-be-refused|{cell}"), format!("{cell}: the constructor succeeded (visible data {seen:?})"));
                        }
                    }
                    drop(got);
                    // the keyring entry of an id never changes once it exists, and appears only when the model says so
                    for id in 0..2u8 {
                        let now = keyring_key(&svc, id);
                        if let (Some(a), Some(b)) = (&ring_bytes[id as usize], &now) {
                            if a != b {
                                bad(format!("C13|matrix|keyring-key-replaced|{cell}"), format!("{cell}: the keyring entry key{id} changed"));
                            }
                        }
                        if ring_bytes[id as usize].is_some() && now.is_none() {
                            bad(format!("C13|matrix|keyring-key-removed|{cell}"), format!("{cell}: the keyring entry key{id} disappeared"));
                        }
                        if now.is_some() != model.ring[id as usize] {
                            bad(format!("C13|matrix|keyring-entry-presence|{cell}|have={}", now.is_some()), format!("{cell}: keyring entry key{id} present={} expected={}", now.is_some(), model.ring[id as usize]));
                        }
                        ring_bytes[id as usize] = now;
                    }
                    // at rest: encrypted databases never hold the canary or a plain header; modes are owner-only
                    for (pi, path) in paths.iter().enumerate() {
                        if let MFile::Enc(..) = model.files[pi] {
                            let dir = path.parent().unwrap();
                            for h in scan_for(dir, &canary) {
                                bad(format!("C13|matrix|plaintext-at-rest|{h}"), format!("after {cell}: {h}"));
                            }
                            if std::fs::read(path).map(|b| b.starts_with(b"SQLite format 3\0")).unwrap_or(false) {
                                bad(format!("C13|matrix|plaintext-header|{cell}"), format!("after {cell}: the encrypted database has a plain SQLite header"));
                            }
                        }
                        if !matches!(model.files[pi], MFile::Missing) {
                            let dir = path.parent().unwrap();
                            // a directory that existed before the library touched the path is the caller's business
                            let lib_made_dir = !(pi == 0 && !matches!(init, FileInit::Missing));
                            if lib_made_dir && mode(dir) != Some(0o700) {
                                bad(format!("C13|matrix|directory-mode|path{pi}|{:o}", mode(dir).unwrap_or(0)), format!("after {cell}: database directory of path{pi} has mode {:o}", mode(dir).unwrap_or(0)));
                            }
                            for f in files_in(dir) {
                                if opened_ok[pi] && mode(&f) != Some(0o600) {
                                    bad(format!("C13|matrix|file-mode|{:o}", mode(&f).unwrap_or(0)), format!("after {cell}: {} has mode {:o}", f.display(), mode(&f).unwrap_or(0)));
                                }
                            }
                        }
                    }
                }
                let _ = std::fs::remove_dir_all(&root);
            });
        }
    });
    rep.states += work.len() as u64;
    let o = opens.load(Ordering::Relaxed);
    rep.transitions += o;
    rep.evaluations += o;
    unsafe { libc::umask(old_umask) };
    rep.add_count(&format!("matrix_sequences_umask_{umask:03o}"), work.len() as u64);
    rep.add_count(&format!("matrix_constructor_calls_umask_{umask:03o}"), o);
    let cells = cells.into_inner().unwrap();
    rep.add_count("matrix_distinct_cells(constructor,file state,keyring state)", cells.len() as u64);
    for c in cells {
        rep.distinct.insert(h64(&c));
    }
    for (s, w, d) in findings.into_inner().unwrap() {
        rep.finding(s, w, d);
    }
}

// -----------------------------------------------------------------------------------------------
// Part B: nothing sensitive at rest, over a history with rollback and large values
// -----------------------------------------------------------------------------------------------

use crate::crashx::{self, Call};
use crate::lab::{Bk, Cfg, Client, Mdk, SqlStoreFile, relay, result_kind, rumor};
use mdk_core::prelude::*;
use mdk_core::MDK;
use mdk_storage_traits::GroupId;
use openmls_traits::OpenMlsProvider;

const C_GROUP: &str = "CANARYGROUPw8Kp";
const C_DESC: &str = "CANARYDESCv3Tn";
const C_MSG: &str = "CANARYMSGm5Qd";
const C_BIG: &str = "CANARYBIGz2Lh";
const C_RENAME: &str = "CANARYRENAMEr6Wy";

fn enc_client(name: &str, path: &Path, key: [u8; 32]) -> Option<Client> {
    let st = MdkSqliteStorage::new_with_key(path, EncryptionConfig::new(key)).ok()?;
    Some(Client { name: name.into(), keys: nostr::Keys::generate(), mdk: Mdk::Sql(MDK::builder(st).with_config(Cfg::default().to_mdk()).build(), Arc::new(SqlStoreFile { path: path.with_extension("unused") })), reopened: false })
}

fn needles_of(x: &Client, gid: &GroupId, extra: &[(String, Vec<u8>)]) -> Vec<(String, Vec<u8>)> {
    let mut n: Vec<(String, Vec<u8>)> = vec![
        ("group name".into(), C_GROUP.as_bytes().to_vec()),
        ("group description".into(), C_DESC.as_bytes().to_vec()),
        ("message text".into(), C_MSG.as_bytes().to_vec()),
        ("large message text".into(), C_BIG.as_bytes().to_vec()),
        ("renamed group name".into(), C_RENAME.as_bytes().to_vec()),
        ("MLS group id (raw)".into(), gid.as_slice().to_vec()),
        ("MLS group id (hex)".into(), hx(gid.as_slice()).into_bytes()),
        ("own Nostr public key (hex)".into(), x.pk().to_hex().into_bytes()),
        ("own Nostr public key (raw)".into(), x.pk().to_bytes().to_vec()),
    ];
    if let Mdk::Sql(m, _) = &x.mdk {
        if let Ok(Some(g)) = m.get_group(gid) {
            n.push(("Nostr group id (raw)".into(), g.nostr_group_id.to_vec()));
            n.push(("Nostr group id (hex)".into(), hx(&g.nostr_group_id).into_bytes()));
            for e in 0..=g.epoch {
                if let Ok(Some(s)) = m.provider.storage().get_group_exporter_secret(gid, e) {
                    n.push((format!("exporter secret of epoch {e} (raw)"), s.secret.as_ref().to_vec()));
                    n.push((format!("exporter secret of epoch {e} (hex)"), hx(s.secret.as_ref()).into_bytes()));
                }
            }
        }
    }
    n.extend(extra.iter().cloned());
    n
}

pub fn at_rest(rep: &mut Report, thorough: bool) {
    let root = scratch_root().join(format!("atrest-{}", std::process::id()));
    let _ = std::fs::remove_dir_all(&root);
    let dbdir = root.join("db");
    let tmpdir = root.join("tmp");
    std::fs::create_dir_all(&tmpdir).unwrap();
    // SQLite temp files (if any were used) would be created here
    unsafe { std::env::set_var("SQLITE_TMPDIR", &tmpdir) };
    let key = [0x6Bu8; 32];
    let path = dbdir.join("x.sqlite");
    let Some(x) = enc_client("X", &path, key) else {
        rep.machinery_errors.push("at-rest history: the encrypted database could not be created (see the matrix findings)".into());
        return;
    };
    let y = Client::new("Y", Bk::Memory, &Cfg::default());
    let v = Client::new("V", Bk::Memory, &Cfg::default());
    let Mdk::Sql(xm, _) = &x.mdk else { return };
    // SQLCipher does not encrypt temporary files: on an encrypted connection temporary storage has to be memory, whatever
    // the size of a sort or a temporary index (checked on the connection itself; a spill needs megabytes of rows)
    {
        let ts: Option<i64> = xm.provider.storage().verif_with_connection(|conn| conn.query_row("PRAGMA temp_store", [], |r| r.get(0)).ok());
        rep.case(&format!("temp-store|{ts:?}"));
        rep.evaluations += 1;
        if ts != Some(2) {
            rep.finding(format!("C13|at-rest|temporary-storage-not-in-memory|temp_store={ts:?}"), format!("the connection of an encrypted database answers PRAGMA temp_store = {ts:?} (2 = memory): a statement that spills writes rows to an unencrypted temporary file"), json!({"temp_store": ts}));
        }
    }
    let mut scans = 0u64;
    let mut calls_scanned = 0u64;
    let found: Mutex<BTreeMap<String, String>> = Mutex::new(BTreeMap::new());
    // 1. create the group (canaries in name / description), invite Y and V
    let kps = vec![y.key_package_event(), v.key_package_event()];
    let cfgd = NostrGroupConfigData::new(C_GROUP.into(), C_DESC.into(), Some([7u8; 32]), Some([8u8; 32]), Some([9u8; 12]), vec![relay("wss://r0.example")], vec![x.pk(), y.pk(), v.pk()]);
    let res = match xm.create_group(&x.pk(), kps, cfgd) {
        Ok(r) => r,
        Err(e) => {
            rep.machinery_errors.push(format!("at-rest history: create_group {e:?}"));
            return;
        }
    };
    let gid = res.group.mls_group_id.clone();
    let _ = xm.merge_pending_commit(&gid);
    for (i, (c, r)) in [&y, &v].iter().zip(res.welcome_rumors.iter()).enumerate() {
        let wid = nostr::EventId::from_slice(&[0x77 + i as u8; 32]).unwrap();
        let Mdk::Mem(m) = &c.mdk else { return };
        let w = m.process_welcome(&wid, r).expect("welcome");
        m.accept_welcome(&w).expect("accept");
    }
    let (Mdk::Mem(ym), Mdk::Mem(vm)) = (&y.mdk, &v.mdk) else { return };
    let big = format!("{C_BIG}{}", "0123456789abcdef".repeat(if thorough { 3_600 } else { 2_000 }));
    // the events X will process
    let m1 = ym.create_message(&gid, rumor(&y.keys, &format!("{C_MSG} from y"), 1_700_000_001)).expect("m1");
    let m2 = vm.create_message(&gid, rumor(&v.keys, &big, 1_700_000_002)).expect("m2");
    let cy = ym.update_group_data(&gid, mdk_core::groups::NostrGroupDataUpdate::new().name(format!("{C_RENAME}Y"))).expect("cy").evolution_event;
    let cv = vm.update_group_data(&gid, mdk_core::groups::NostrGroupDataUpdate::new().name(format!("{C_RENAME}V"))).expect("cv").evolution_event;
    // MIP-03: earliest timestamp, then smallest id wins; deliver the loser first so that X rolls back
    let y_wins = (cy.created_at, cy.id) < (cv.created_at, cv.id);
    let (loser, winner, wm) = if y_wins { (cv.clone(), cy.clone(), ym) } else { (cy.clone(), cv.clone(), vm) };
    let _ = wm.merge_pending_commit(&gid);
    let m3 = wm.create_message(&gid, rumor(if y_wins { &y.keys } else { &v.keys }, &format!("{C_MSG} after the race"), 1_700_000_003)).expect("m3");
    let extra: Vec<(String, Vec<u8>)> = vec![("message rumor/event id (hex)".into(), m1.id.to_hex().into_bytes())];

    let history: Vec<(String, Call)> = vec![
        ("own-message".into(), Call::CreateMessage(format!("{C_MSG} from x"))),
        ("application".into(), Call::Process(m1.clone())),
        ("large-application".into(), Call::Process(m2.clone())),
        ("commit".into(), Call::Process(loser.clone())),
        ("commit-with-rollback".into(), Call::Process(winner.clone())),
        ("application-after-rollback".into(), Call::Process(m3.clone())),
        ("own-commit".into(), Call::SelfUpdate),
        ("own-commit".into(), Call::MergePending),
    ];
    // the database as it is before the history, for the crash enumeration below
    let db0 = root.join("x0.sqlite");
    std::fs::copy(&path, &db0).expect("copy db0");

    // 2. scan after every call and at every storage tick inside every call
    let tick_scans = Arc::new(AtomicU64::new(0));
    let tick_hits: Arc<Mutex<BTreeMap<String, String>>> = Arc::new(Mutex::new(BTreeMap::new()));
    let needles_now: Arc<Mutex<Vec<(String, Vec<u8>)>>> = Arc::new(Mutex::new(needles_of(&x, &gid, &extra)));
    {
        let (dbdir, tmpdir, tick_scans, tick_hits, needles_now) = (dbdir.clone(), tmpdir.clone(), tick_scans.clone(), tick_hits.clone(), needles_now.clone());
        let me = std::thread::current().id();
        mdk_sqlite_storage::verif_hooks::set_observer(Some(Arc::new(move |k, label| {
            if std::thread::current().id() != me {
                return;
            }
            let n = needles_now.lock().unwrap();
            for d in [&dbdir, &tmpdir] {
                for h in scan_for(d, &n) {
                    tick_hits.lock().unwrap().entry(h.clone()).or_insert_with(|| format!("at storage tick {k} ({label})"));
                }
            }
            tick_scans.fetch_add(1, Ordering::Relaxed);
        })));
    }
    let mut results = Vec::new();
    for (tag, call) in &history {
        let r = match call {
            Call::Process(ev) => result_kind(&xm.process_message(ev)),
            Call::CreateMessage(c) => xm.create_message(&gid, rumor(&x.keys, c, 1_700_000_000)).map(|_| "Ok".to_string()).unwrap_or_else(|e| format!("Err({e:?})")),
            Call::SelfUpdate => xm.self_update(&gid).map(|_| "Ok".to_string()).unwrap_or_else(|e| format!("Err({e:?})")),
            Call::MergePending => xm.merge_pending_commit(&gid).map(|_| "Ok".to_string()).unwrap_or_else(|e| format!("Err({e:?})")),
            _ => "skipped".into(),
        };
        results.push(format!("{}[{tag}] -> {r}", call.label()));
        // secrets of a new epoch become needles as soon as they exist
        let n = needles_of(&x, &gid, &extra);
        *needles_now.lock().unwrap() = n.clone();
        for d in [&dbdir, &tmpdir] {
            for h in scan_for(d, &n) {
                found.lock().unwrap().entry(h).or_insert_with(|| format!("after {}[{tag}]", call.label()));
            }
        }
        scans += 1;
        calls_scanned += 1;
    }
    mdk_sqlite_storage::verif_hooks::set_observer(None);
    let rolled_back = results.iter().any(|r| r.contains("commit-with-rollback] -> Commit"));
    if !rolled_back {
        rep.machinery_errors.push(format!("at-rest history did not reach the rollback: {results:?}"));
    }
    for (h, at) in tick_hits.lock().unwrap().iter() {
        found.lock().unwrap().entry(h.clone()).or_insert_with(|| at.clone());
    }
    // positive control: the same needles are found in an unencrypted copy of the data (the scan can see them)
    let control = {
        let pdir = root.join("plain");
        let p = pdir.join("x.sqlite");
        let st = MdkSqliteStorage::new_unencrypted(&p).expect("plain control");
        let mut g = storex::mk_group(1, 1, 1, 1, true);
        g.name = C_GROUP.into();
        g.description = C_DESC.into();
        let _ = st.save_group(g);
        drop(st);
        scan_for(&pdir, &[("group name".into(), C_GROUP.as_bytes().to_vec()), ("group description".into(), C_DESC.as_bytes().to_vec())]).len()
    };
    if control != 2 {
        rep.machinery_errors.push(format!("at-rest positive control: the scan found {control} of 2 canaries in an unencrypted database"));
    }
    // 3. opening: right key same data; other key, no key (raw SQLite), unencrypted constructor are refused
    let before = x.group_obs(&gid).map(|g| format!("{:?}{:?}", g.mls, g.messages.len()));
    let size_before = std::fs::metadata(&path).map(|m| m.len()).unwrap_or(0);
    let needles = needles_of(&x, &gid, &extra);
    drop(x);
    let mut bad = |sig: &str, what: String| {
        found.lock().unwrap().insert(format!("!{sig}"), what);
    };
    match MdkSqliteStorage::new_with_key(&path, EncryptionConfig::new([0x6Cu8; 32])) {
        Ok(_) => bad("opened-with-another-key", "the encrypted database opened with a different key".into()),
        Err(_) => {}
    }
    match MdkSqliteStorage::new_unencrypted(&path) {
        Ok(_) => bad("opened-by-unencrypted-constructor", "the encrypted database opened with new_unencrypted".into()),
        Err(_) => {}
    }
    if let Ok(c) = rusqlite::Connection::open(&path) {
        if c.query_row("SELECT count(*) FROM sqlite_master", [], |r| r.get::<_, i64>(0)).is_ok() {
            bad("readable-without-key", "a plain SQLite connection without a key can read the schema".into());
        }
    }
    if std::fs::metadata(&path).map(|m| m.len()).unwrap_or(0) != size_before {
        bad("refused-open-changed-the-file", "a refused open changed the size of the database file".into());
    }
    let x2 = Client { name: "X".into(), keys: nostr::Keys::generate(), mdk: Mdk::Sql(MDK::builder(match MdkSqliteStorage::new_with_key(&path, EncryptionConfig::new(key)) {
        Ok(s) => s,
        Err(e) => {
            rep.finding("C13|open|right-key-refused-after-refused-opens".into(), format!("after refused opens (other key, unencrypted constructor, plain SQLite) the right key is refused: {e:?}"), json!({}));
            return;
        }
    }).build(), Arc::new(SqlStoreFile { path: path.with_extension("unused") })), reopened: true };
    let after = x2.group_obs(&gid).map(|g| format!("{:?}{:?}", g.mls, g.messages.len()));
    if before != after {
        bad("data-differs-after-reopen", format!("reopening with the right key shows different data: {before:?} vs {after:?}"));
    }
    for d in [&dbdir, &tmpdir] {
        for h in scan_for(d, &needles) {
            found.lock().unwrap().entry(h).or_insert_with(|| "after closing and reopening".into());
        }
    }
    scans += 1;
    drop(x2);
    // 4. after a process death at every storage tick of every call: scan what the dead process left behind
    let keys = nostr::Keys::generate();
    let scan = |dir: &Path, _site: &str| -> Vec<String> { scan_for(dir, &needles) };
    let process_only: Vec<(String, Call)> = history.iter().filter(|(_, c)| matches!(c, Call::Process(_))).cloned().collect();
    crashx::enumerate(rep, "C13", "at-rest", &db0, &gid, &keys, Some(hx(&key)), process_only, Some(&scan), false);

    rep.states += calls_scanned;
    let ts = tick_scans.load(Ordering::Relaxed);
    rep.evaluations += scans + ts;
    rep.transitions += ts;
    rep.add_count("at_rest_calls", calls_scanned);
    rep.add_count("at_rest_scans_at_storage_ticks", ts);
    rep.add_count("at_rest_needles", needles.len() as u64);
    rep.add_count("at_rest_database_bytes", size_before);
    rep.sample(json!({"at_rest_history": results, "needles": needles.iter().map(|n| n.0.clone()).collect::<Vec<_>>()}));
    for (h, at) in found.into_inner().unwrap() {
        if let Some(sig) = h.strip_prefix('!') {
            rep.finding(format!("C13|open|{sig}"), at, json!({}));
        } else {
            rep.finding(format!("C13|plaintext-at-rest|{h}"), format!("{h}, first seen {at}"), json!({"first_seen": at}));
        }
    }
    let _ = std::fs::remove_dir_all(&root);
}
