//! E3 sched: controlled scheduler over the lock / yield hooks of the storage crates, stateless
//! depth-first exploration of all schedules (optionally preemption-bounded), one real execution per schedule.
//!
//! Threads are real OS threads, but only one runs between two schedule points. Schedule points are the
//! lock acquisitions of the storage backends (memory: the two RwLocks; SQLite: the connection mutex and the
//! key-generation mutex) and the yield points in the SQLite constructors. A thread is enabled when the
//! lock it asks for is free (reader/writer aware), so a parked thread may hold locks without blocking
//! the explorer; "no enabled thread while some are waiting" is a deadlock.

use std::cell::RefCell;
use std::collections::HashMap;
use std::sync::{Arc, Condvar, Mutex};

#[derive(Debug, Clone, PartialEq)]
enum TS {
    Running,
    Waiting { want: Option<(usize, bool)> },
    Finished,
}

#[derive(Debug, Clone)]
pub struct Point {
    /// number of enabled threads at this decision, in canonical order (the yielding thread first if still enabled, then ascending ids)
    pub enabled: Vec<usize>,
    pub chosen: usize,
    pub running_enabled: bool,
    pub label: &'static str,
}

struct Inner {
    threads: Vec<TS>,
    labels: Vec<&'static str>,
    active: usize,
    current: Option<usize>,
    last: Option<usize>,
    /// lock address -> (shared holders, exclusive holder)
    holders: HashMap<usize, (Vec<usize>, Option<usize>)>,
    prefix: Vec<usize>,
    trace: Vec<Point>,
    step: u64,
    aborted: Option<String>,
}

pub struct Session {
    m: Mutex<Inner>,
    cv: Condvar,
}

thread_local! {
    static CUR: RefCell<Option<(Arc<Session>, usize)>> = const { RefCell::new(None) };
}

struct AbortToken;

impl Session {
    fn new(n: usize, prefix: &[usize]) -> Arc<Session> {
        Arc::new(Session {
            m: Mutex::new(Inner { threads: vec![TS::Running; n], labels: vec![""; n], active: n, current: None, last: None, holders: HashMap::new(), prefix: prefix.to_vec(), trace: Vec::new(), step: 0, aborted: None }),
            cv: Condvar::new(),
        })
    }

    /// Can thread `tid` take what it asks for now? Exclusive: nobody holds the lock. Shared: no exclusive holder,
    /// and - as parking_lot does to keep writers from starving - no other thread queued for exclusive access while
    /// the lock is held (a thread parked at an exclusive acquisition of a held lock is such a queued writer). The
    /// second clause is what makes a recursive read deadlock against a waiting writer, as it does in the real lock.
    fn available(inner: &Inner, tid: usize, want: &Option<(usize, bool)>) -> bool {
        match want {
            None => true,
            Some((l, excl)) => {
                let (sh, ex): (&[usize], Option<usize>) = match inner.holders.get(l) {
                    None => (&[], None),
                    Some((sh, ex)) => (sh.as_slice(), *ex),
                };
                if *excl {
                    ex.is_none() && sh.is_empty()
                } else {
                    let held = ex.is_some() || !sh.is_empty();
                    let writer_queued = held && inner.threads.iter().enumerate().any(|(u, s)| u != tid && matches!(s, TS::Waiting { want: Some((l2, true)) } if l2 == l));
                    ex.is_none() && !writer_queued
                }
            }
        }
    }

    /// choose the next thread to run; called with no thread running
    fn pick_next(inner: &mut Inner) {
        let mut enabled: Vec<usize> = Vec::new();
        let mut waiting = 0;
        for (t, s) in inner.threads.iter().enumerate() {
            if let TS::Waiting { want } = s {
                waiting += 1;
                if Self::available(inner, t, want) {
                    enabled.push(t);
                }
            }
        }
        if enabled.is_empty() {
            inner.current = None;
            if waiting > 0 {
                inner.aborted = Some(format!("deadlock: {waiting} thread(s) waiting, none can take its lock"));
            }
            return;
        }
        let running_enabled = inner.last.map(|l| enabled.contains(&l)).unwrap_or(false);
        if running_enabled {
            let l = inner.last.unwrap();
            enabled.retain(|t| *t != l);
            enabled.insert(0, l);
        }
        let pos = inner.trace.len();
        let idx = if pos < inner.prefix.len() { inner.prefix[pos] } else { 0 };
        if idx >= enabled.len() {
            inner.aborted = Some(format!("schedule diverged while replaying a prefix at decision {pos}: choice {idx} of {} enabled", enabled.len()));
            inner.current = None;
            return;
        }
        let t = enabled[idx];
        let label = inner.labels[t];
        inner.trace.push(Point { enabled: enabled.clone(), chosen: idx, running_enabled, label });
        inner.current = Some(t);
        inner.step += 1;
    }

    fn wait_turn(self: &Arc<Self>, tid: usize, want: Option<(usize, bool)>, label: &'static str) {
        let mut g = self.m.lock().unwrap();
        if g.aborted.is_some() {
            drop(g);
            std::panic::resume_unwind(Box::new(AbortToken));
        }
        g.threads[tid] = TS::Waiting { want };
        g.labels[tid] = label;
        g.active -= 1;
        if g.current == Some(tid) {
            g.last = Some(tid);
            g.current = None;
        }
        if g.active == 0 {
            Self::pick_next(&mut g);
            self.cv.notify_all();
        }
        loop {
            if g.aborted.is_some() {
                drop(g);
                std::panic::resume_unwind(Box::new(AbortToken));
            }
            if g.current == Some(tid) {
                break;
            }
            g = self.cv.wait(g).unwrap();
        }
        g.threads[tid] = TS::Running;
        g.active += 1;
        if let Some((l, excl)) = want {
            let e = g.holders.entry(l).or_insert((Vec::new(), None));
            if excl {
                e.1 = Some(tid);
            } else {
                e.0.push(tid);
            }
        }
    }

    fn released(&self, tid: usize, lock: usize, excl: bool) {
        let mut g = self.m.lock().unwrap();
        if let Some(e) = g.holders.get_mut(&lock) {
            if excl {
                if e.1 == Some(tid) {
                    e.1 = None;
                }
            } else if let Some(p) = e.0.iter().position(|t| *t == tid) {
                e.0.remove(p);
            }
        }
    }

    fn finished(&self, tid: usize) {
        let mut g = self.m.lock().unwrap();
        g.threads[tid] = TS::Finished;
        g.active = g.active.saturating_sub(1);
        if g.current == Some(tid) {
            g.last = None;
            g.current = None;
        }
        if g.active == 0 && g.aborted.is_none() {
            Self::pick_next(&mut g);
        }
        self.cv.notify_all();
    }

    pub fn step(&self) -> u64 {
        self.m.lock().unwrap().step
    }
}

/// current logical time of the calling controlled thread's session (0 outside a session)
pub fn now() -> u64 {
    CUR.with(|c| c.borrow().as_ref().map(|(s, _)| s.step()).unwrap_or(0))
}

struct Dispatcher;

impl mdk_memory_storage::verif_hooks::SchedHook for Dispatcher {
    fn acquire(&self, lock: usize, exclusive: bool) {
        let cur = CUR.with(|c| c.borrow().clone());
        if let Some((s, tid)) = cur {
            s.wait_turn(tid, Some((lock, exclusive)), if exclusive { "memory:write-lock" } else { "memory:read-lock" });
        }
    }
    fn release(&self, lock: usize, exclusive: bool) {
        let cur = CUR.with(|c| c.borrow().clone());
        if let Some((s, tid)) = cur {
            s.released(tid, lock, exclusive);
        }
    }
}

impl mdk_sqlite_storage::verif_hooks::SchedHook for Dispatcher {
    fn acquire(&self, lock: usize, exclusive: bool) {
        let cur = CUR.with(|c| c.borrow().clone());
        if let Some((s, tid)) = cur {
            s.wait_turn(tid, Some((lock, exclusive)), "sqlite:mutex");
        }
    }
    fn release(&self, lock: usize, exclusive: bool) {
        let cur = CUR.with(|c| c.borrow().clone());
        if let Some((s, tid)) = cur {
            s.released(tid, lock, exclusive);
        }
    }
    fn yield_point(&self, label: &'static str) {
        let cur = CUR.with(|c| c.borrow().clone());
        if let Some((s, tid)) = cur {
            s.wait_turn(tid, None, label);
        }
    }
}

/// install the dispatcher in both storage crates (idempotent)
pub fn install() {
    static ONCE: std::sync::Once = std::sync::Once::new();
    ONCE.call_once(|| {
        let d = Arc::new(Dispatcher);
        mdk_memory_storage::verif_hooks::set_sched_hook(Some(d.clone()));
        mdk_sqlite_storage::verif_hooks::set_sched_hook(Some(d));
        // keep the default panic hook quiet for the scheduler's own unwinding
        let prev = std::panic::take_hook();
        std::panic::set_hook(Box::new(move |info| {
            if info.payload().downcast_ref::<AbortToken>().is_some() {
                return;
            }
            if CUR.with(|c| c.borrow().is_some()) && std::env::var("VERIF_DEBUG").is_err() {
                return;
            }
            prev(info);
        }));
    });
}

pub struct Execution {
    pub trace: Vec<Point>,
    pub aborted: Option<String>,
    /// panic messages of worker bodies (other than scheduler aborts)
    pub panics: Vec<(usize, String)>,
}

/// Run `n` controlled threads once; thread `t` executes `body(t)`. The schedule follows `prefix` and then
/// always continues the running thread (choice 0).
pub fn run_once(n: usize, prefix: &[usize], body: &(dyn Fn(usize) + Sync)) -> Execution {
    install();
    let s = Session::new(n, prefix);
    let panics: Mutex<Vec<(usize, String)>> = Mutex::new(Vec::new());
    std::thread::scope(|sc| {
        for t in 0..n {
            let s = s.clone();
            let panics = &panics;
            sc.spawn(move || {
                CUR.with(|c| *c.borrow_mut() = Some((s.clone(), t)));
                let r = std::panic::catch_unwind(std::panic::AssertUnwindSafe(|| body(t)));
                CUR.with(|c| *c.borrow_mut() = None);
                if let Err(p) = r {
                    if p.downcast_ref::<AbortToken>().is_none() {
                        let msg = p.downcast_ref::<String>().cloned().or_else(|| p.downcast_ref::<&str>().map(|s| s.to_string())).unwrap_or_else(|| "panic".into());
                        panics.lock().unwrap().push((t, msg));
                    }
                }
                s.finished(t);
            });
        }
    });
    let g = s.m.lock().unwrap();
    Execution { trace: g.trace.clone(), aborted: g.aborted.clone(), panics: panics.into_inner().unwrap() }
}

pub struct Exploration {
    pub schedules: u64,
    pub decisions: u64,
    pub max_points: usize,
    pub bound_hit: bool,
}

/// Depth-first over all schedules with at most `bound` preemptions (None: all schedules). `visit` sees every
/// execution together with the choice list that produced it and returns false to stop.
pub fn explore(n: usize, bound: Option<usize>, max_schedules: u64, body: &(dyn Fn(usize) + Sync), visit: &mut dyn FnMut(&[usize], &Execution) -> bool, reset: &mut dyn FnMut()) -> Exploration {
    let mut stack: Vec<Vec<usize>> = vec![Vec::new()];
    let mut ex = Exploration { schedules: 0, decisions: 0, max_points: 0, bound_hit: false };
    while let Some(prefix) = stack.pop() {
        if ex.schedules >= max_schedules {
            ex.bound_hit = true;
            break;
        }
        reset();
        let e = run_once(n, &prefix, body);
        ex.schedules += 1;
        ex.decisions += e.trace.len() as u64;
        ex.max_points = ex.max_points.max(e.trace.len());
        let choices: Vec<usize> = e.trace.iter().map(|p| p.chosen).collect();
        if !visit(&choices, &e) {
            break;
        }
        if e.aborted.as_deref().map(|a| a.starts_with("schedule diverged")).unwrap_or(false) {
            continue;
        }
        // alternatives at every decision after the prefix
        let mut pre = 0usize;
        let mut pre_before: Vec<usize> = Vec::with_capacity(e.trace.len());
        for p in &e.trace {
            pre_before.push(pre);
            if p.running_enabled && p.chosen != 0 {
                pre += 1;
            }
        }
        for i in (prefix.len()..e.trace.len()).rev() {
            let p = &e.trace[i];
            for alt in (1..p.enabled.len()).rev() {
                let cost = pre_before[i] + if p.running_enabled { 1 } else { 0 };
                if let Some(b) = bound {
                    if cost > b {
                        continue;
                    }
                }
                let mut np = choices[..i].to_vec();
                np.push(alt);
                stack.push(np);
            }
        }
    }
    ex
}
