//! Adversary toolkit: everything a modified client could emit, built by driving OpenMLS directly
//! through the public `MDK.provider` and `load_mls_group`, and wrapped exactly like MDK wraps it.

use mdk_core::prelude::*;
use mdk_storage_traits::groups::GroupStorage;
use nostr::nips::nip44;
use nostr::{Event, EventBuilder, Keys, Kind, SecretKey, Tag, TagKind, Timestamp};
use openmls::prelude::*;
use openmls_basic_credential::SignatureKeyPair;
use tls_codec::Serialize as _;

use crate::lab::*;
use crate::with_mdk;

#[derive(Debug)]
pub struct AdvError(pub String);
fn ae<T: std::fmt::Debug>(ctx: &str) -> impl Fn(T) -> AdvError + '_ {
    move |e| AdvError(format!("{ctx}: {e:?}"))
}

/// NIP-44 layer + kind-445 wrapper for `mls_bytes`, keyed by the exporter secret `c` holds for `epoch`
pub fn wrap(c: &Client, gid: &GroupId, epoch: u64, mls_bytes: &[u8], h: [u8; 32], created_at: u64) -> Result<Event, AdvError> {
    let stored = with_mdk!(c, m => m.provider.storage().get_group_exporter_secret(gid, epoch)).map_err(ae("exporter secret"))?;
    let secret_bytes: Vec<u8> = match stored {
        Some(s) => s.secret.as_ref().to_vec(),
        None => with_mdk!(c, m => {
            // not stored yet (the client never sent anything in this epoch): derive it like MDK does
            let g = m.load_mls_group(gid).map_err(ae("load"))?.ok_or(AdvError("no group".into()))?;
            if g.epoch().as_u64() != epoch {
                return Err(AdvError("no exporter secret".into()));
            }
            g.export_secret(m.provider.crypto(), "nostr", b"nostr", 32).map_err(ae("export"))
        })?,
    };
    let sk = SecretKey::from_slice(&secret_bytes).map_err(ae("sk"))?;
    let k = Keys::new(sk);
    let content = nip44::encrypt(k.secret_key(), &k.public_key, mls_bytes, nip44::Version::default()).map_err(ae("nip44"))?;
    wrapper_with_content(&content, h, created_at)
}

pub fn wrapper_with_content(content: &str, h: [u8; 32], created_at: u64) -> Result<Event, AdvError> {
    let eph = Keys::generate();
    EventBuilder::new(Kind::MlsGroupMessage, content)
        .tag(Tag::custom(TagKind::h(), [hex::encode(h)]))
        .custom_created_at(Timestamp::from_secs(created_at))
        .sign_with_keys(&eph)
        .map_err(ae("sign"))
}

/// same ciphertext, fresh wrapper id (optionally another h tag)
pub fn rewrap(ev: &Event, h: Option<[u8; 32]>) -> Result<Event, AdvError> {
    let hh = match h {
        Some(x) => x,
        None => {
            let t = ev.tags.iter().find(|t| t.kind() == TagKind::h()).and_then(|t| t.content()).ok_or(AdvError("no h".into()))?;
            hex::decode(t).map_err(ae("hex"))?.try_into().map_err(|_| AdvError("h len".into()))?
        }
    };
    wrapper_with_content(&ev.content, hh, ev.created_at.as_secs())
}

/// [`rewrap`] with the new wrapper id on a chosen side of the original's (MIP-03 breaks timestamp ties by id,
/// so which of the two sorts first must not be left to chance)
pub fn rewrap_ordered(ev: &Event, h: Option<[u8; 32]>, smaller_id: bool) -> Result<Event, AdvError> {
    for _ in 0..50_000 {
        let re = rewrap(ev, h)?;
        if (re.id < ev.id) == smaller_id {
            return Ok(re);
        }
    }
    Err(AdvError("no wrapper id on the requested side".into()))
}

pub struct Mls<'a> {
    pub c: &'a Client,
    pub gid: GroupId,
}

fn signer_of<S: MdkStorageProvider>(m: &MDK<S>, g: &MlsGroup) -> Result<SignatureKeyPair, AdvError> {
    let leaf = g.own_leaf().ok_or(AdvError("no own leaf".into()))?;
    SignatureKeyPair::read(m.provider.storage(), leaf.signature_key().as_slice(), g.ciphersuite().signature_algorithm()).ok_or(AdvError("no signer".into()))
}

pub fn nostr_group_id_of(c: &Client, gid: &GroupId) -> Option<[u8; 32]> {
    with_mdk!(c, m => m.get_group(gid)).ok().flatten().map(|g| g.nostr_group_id)
}

/// Encrypt arbitrary bytes as an MLS application message from `c` (mutates c's sender ratchet) and wrap it.
pub fn app_message(c: &Client, gid: &GroupId, payload: &[u8], created_at: u64) -> Result<Event, AdvError> {
    with_mdk!(c, m => {
        let mut g = m.load_mls_group(gid).map_err(ae("load"))?.ok_or(AdvError("no group".into()))?;
        let signer = signer_of(m, &g)?;
        let out = g.create_message(&m.provider, &signer, payload).map_err(ae("create_message"))?;
        let bytes = out.tls_serialize_detached().map_err(ae("tls"))?;
        // make sure the exporter secret of the current epoch is stored
        let epoch = g.epoch().as_u64();
        let h = nostr_group_id_of(c, gid).ok_or(AdvError("no record".into()))?;
        wrap(c, gid, epoch, &bytes, h, created_at)
    })
}

#[derive(Debug, Clone, serde::Serialize, serde::Deserialize, PartialEq, Eq)]
pub enum CommitContent {
    Empty,
    PathOnlySelfUpdate,
    Add,
    Remove(String),
    Rename(String),
    Admins(Vec<String>),
    Relay(String),
    /// update path whose leaf carries another Nostr identity
    PathWithIdentity(String),
    /// everything queued in the sender's proposal store, by reference
    PendingByRef,
    /// add + rename in one commit
    Mixed,
    Psk,
    /// group-context-extensions commit whose 0xF2EE extension is exactly these bytes
    RawGroupData(Vec<u8>),
    /// a rename (a proposal the commit covers) together with an update path whose leaf carries another Nostr identity
    RenameWithIdentity(String),
}

/// Build a commit directly with the OpenMLS commit builder on `c` (left pending on c) and wrap it.
pub fn raw_commit(c: &Client, gid: &GroupId, content: &CommitContent, pk_of: &dyn Fn(&str) -> Option<nostr::PublicKey>, kp_event: Option<&Event>, created_at: u64) -> Result<Event, AdvError> {
    with_mdk!(c, m => {
        let mut g = m.load_mls_group(gid).map_err(ae("load"))?.ok_or(AdvError("no group".into()))?;
        let signer = signer_of(m, &g)?;
        let epoch = g.epoch().as_u64();
        let h = nostr_group_id_of(c, gid).ok_or(AdvError("no record".into()))?;
        let ext_with = |g: &MlsGroup, f: &dyn Fn(&mut NostrGroupDataExtension)| -> Result<Extensions<GroupContext>, AdvError> {
            let mut d = NostrGroupDataExtension::from_group(g).map_err(ae("ext"))?;
            f(&mut d);
            let bytes = mdk_core::verif_hooks::ext_encode(&d).map_err(ae("enc"))?;
            let mut exts = g.extensions().clone();
            exts.add_or_replace(Extension::Unknown(0xF2EE, UnknownExtension(bytes))).map_err(ae("add_or_replace"))?;
            Ok(exts)
        };
        let leaf_index_of = |g: &MlsGroup, who: &str| -> Option<LeafNodeIndex> {
            let pk = pk_of(who)?;
            g.members().find(|mm| BasicCredential::try_from(mm.credential.clone()).map(|c| c.identity() == pk.to_bytes()).unwrap_or(false)).map(|mm| mm.index)
        };
        let mut b = g.commit_builder();
        let mut consume = false;
        match content {
            CommitContent::Empty => {
                b = b.force_self_update(false);
            }
            CommitContent::PathOnlySelfUpdate => {
                b = b.force_self_update(true);
            }
            CommitContent::Add => {
                let ev = kp_event.ok_or(AdvError("no key package".into()))?;
                let kp = m.parse_key_package(ev).map_err(ae("kp"))?;
                b = b.propose_adds(vec![kp]);
            }
            CommitContent::Remove(who) => {
                let idx = { let gg = m.load_mls_group(gid).map_err(ae("load"))?.unwrap(); leaf_index_of(&gg, who).ok_or(AdvError("no leaf".into()))? };
                b = b.propose_removals(vec![idx]);
            }
            CommitContent::Rename(n) => {
                let gg = m.load_mls_group(gid).map_err(ae("load"))?.unwrap();
                let exts = ext_with(&gg, &|d| d.name = n.clone())?;
                b = b.propose_group_context_extensions(exts).map_err(ae("gce"))?;
            }
            CommitContent::RawGroupData(bytes) => {
                let gg = m.load_mls_group(gid).map_err(ae("load"))?.unwrap();
                let mut exts = gg.extensions().clone();
                exts.add_or_replace(Extension::Unknown(0xF2EE, UnknownExtension(bytes.clone()))).map_err(ae("add_or_replace"))?;
                b = b.propose_group_context_extensions(exts).map_err(ae("gce"))?;
            }
            CommitContent::Relay(u) => {
                let gg = m.load_mls_group(gid).map_err(ae("load"))?.unwrap();
                let exts = ext_with(&gg, &|d| { d.relays = [relay(u)].into_iter().collect(); })?;
                b = b.propose_group_context_extensions(exts).map_err(ae("gce"))?;
            }
            CommitContent::Admins(names) => {
                let gg = m.load_mls_group(gid).map_err(ae("load"))?.unwrap();
                let pks: Vec<nostr::PublicKey> = names.iter().filter_map(|n| pk_of(n)).collect();
                let exts = ext_with(&gg, &|d| { d.admins = pks.iter().copied().collect(); })?;
                b = b.propose_group_context_extensions(exts).map_err(ae("gce"))?;
            }
            CommitContent::PathWithIdentity(who) => {
                let pk = pk_of(who).ok_or(AdvError("unknown".into()))?;
                let gg = m.load_mls_group(gid).map_err(ae("load"))?.unwrap();
                let leaf = gg.own_leaf().ok_or(AdvError("no leaf".into()))?;
                let cred = BasicCredential::new(pk.to_bytes().to_vec());
                let cwk = CredentialWithKey { credential: cred.into(), signature_key: leaf.signature_key().clone() };
                let params = LeafNodeParameters::builder().with_credential_with_key(cwk).build();
                b = b.force_self_update(true).leaf_node_parameters(params);
            }
            CommitContent::RenameWithIdentity(who) => {
                let pk = pk_of(who).ok_or(AdvError("unknown".into()))?;
                let gg = m.load_mls_group(gid).map_err(ae("load"))?.unwrap();
                let leaf = gg.own_leaf().ok_or(AdvError("no leaf".into()))?;
                let cred = BasicCredential::new(pk.to_bytes().to_vec());
                let cwk = CredentialWithKey { credential: cred.into(), signature_key: leaf.signature_key().clone() };
                let params = LeafNodeParameters::builder().with_credential_with_key(cwk).build();
                let exts = ext_with(&gg, &|d| d.name = "renamed-and-rebound".into())?;
                b = b.propose_group_context_extensions(exts).map_err(ae("gce"))?.force_self_update(true).leaf_node_parameters(params);
            }
            CommitContent::PendingByRef => {
                consume = true;
                b = b.force_self_update(true);
            }
            CommitContent::Mixed => {
                let ev = kp_event.ok_or(AdvError("no key package".into()))?;
                let kp = m.parse_key_package(ev).map_err(ae("kp"))?;
                let gg = m.load_mls_group(gid).map_err(ae("load"))?.unwrap();
                let exts = ext_with(&gg, &|d| d.name = "mixed".into())?;
                b = b.propose_adds(vec![kp]).propose_group_context_extensions(exts).map_err(ae("gce"))?;
            }
            CommitContent::Psk => {
                return Err(AdvError("psk commits need an injected PSK; not buildable through the public API".into()));
            }
        }
        let b = b.consume_proposal_store(consume);
        let b = b.load_psks(m.provider.storage()).map_err(ae("psks"))?;
        let built = b.build(m.provider.rand(), m.provider.crypto(), &signer, |_| true).map_err(ae("build"))?;
        let bundle = built.stage_commit(&m.provider).map_err(ae("stage"))?;
        let bytes = bundle.commit().tls_serialize_detached().map_err(ae("tls"))?;
        wrap(c, gid, epoch, &bytes, h, created_at)
    })
}

#[derive(Debug, Clone, serde::Serialize, serde::Deserialize, PartialEq, Eq)]
pub enum ProposalContent {
    Add,
    Remove(String),
    SelfRemove,
    Update,
    UpdateWithIdentity(String),
    Rename(String),
}

/// A stand-alone proposal message from `c` (also queued in c's own store), wrapped.
pub fn raw_proposal(c: &Client, gid: &GroupId, content: &ProposalContent, pk_of: &dyn Fn(&str) -> Option<nostr::PublicKey>, kp_event: Option<&Event>, created_at: u64) -> Result<Event, AdvError> {
    with_mdk!(c, m => {
        let mut g = m.load_mls_group(gid).map_err(ae("load"))?.ok_or(AdvError("no group".into()))?;
        let signer = signer_of(m, &g)?;
        let epoch = g.epoch().as_u64();
        let h = nostr_group_id_of(c, gid).ok_or(AdvError("no record".into()))?;
        let leaf_index_of = |g: &MlsGroup, who: &str| -> Option<LeafNodeIndex> {
            let pk = pk_of(who)?;
            g.members().find(|mm| BasicCredential::try_from(mm.credential.clone()).map(|c| c.identity() == pk.to_bytes()).unwrap_or(false)).map(|mm| mm.index)
        };
        let out = match content {
            ProposalContent::Add => {
                let ev = kp_event.ok_or(AdvError("no key package".into()))?;
                let kp = m.parse_key_package(ev).map_err(ae("kp"))?;
                g.propose_add_member(&m.provider, &signer, &kp).map_err(ae("propose_add"))?.0
            }
            ProposalContent::Remove(who) => {
                let idx = leaf_index_of(&g, who).ok_or(AdvError("no leaf".into()))?;
                g.propose_remove_member(&m.provider, &signer, idx).map_err(ae("propose_remove"))?.0
            }
            ProposalContent::SelfRemove => g.leave_group(&m.provider, &signer).map_err(ae("leave"))?,
            ProposalContent::Update => g.propose_self_update(&m.provider, &signer, LeafNodeParameters::builder().build()).map_err(ae("propose_update"))?.0,
            ProposalContent::UpdateWithIdentity(who) => {
                let pk = pk_of(who).ok_or(AdvError("unknown".into()))?;
                let leaf = g.own_leaf().ok_or(AdvError("no leaf".into()))?;
                let cred = BasicCredential::new(pk.to_bytes().to_vec());
                let cwk = CredentialWithKey { credential: cred.into(), signature_key: leaf.signature_key().clone() };
                g.propose_self_update(&m.provider, &signer, LeafNodeParameters::builder().with_credential_with_key(cwk).build()).map_err(ae("propose_update_id"))?.0
            }
            ProposalContent::Rename(n) => {
                let mut d = NostrGroupDataExtension::from_group(&g).map_err(ae("ext"))?;
                d.name = n.clone();
                let bytes = mdk_core::verif_hooks::ext_encode(&d).map_err(ae("enc"))?;
                let mut exts = g.extensions().clone();
                exts.add_or_replace(Extension::Unknown(0xF2EE, UnknownExtension(bytes))).map_err(ae("add_or_replace"))?;
                g.propose_group_context_extensions(&m.provider, exts, &signer).map_err(ae("propose_gce"))?.0
            }
        };
        let bytes = out.tls_serialize_detached().map_err(ae("tls"))?;
        wrap(c, gid, epoch, &bytes, h, created_at)
    })
}

/// An attacker-controlled MLS group that reuses an existing MLS group id, inviting the owner of `target_kp`.
/// Returns the kind-444 welcome rumor.
pub fn forged_group_welcome(o: &Client, gid: &GroupId, target_kp: &Event, name: &str, nostr_group_id: [u8; 32]) -> Result<nostr::UnsignedEvent, AdvError> {
    use nostr::base64::Engine;
    with_mdk!(o, m => {
        let cs = m.ciphersuite;
        let signer = SignatureKeyPair::new(cs.signature_algorithm()).map_err(ae("sigkey"))?;
        signer.store(m.provider.storage()).map_err(ae("store"))?;
        let cred = BasicCredential::new(o.pk().to_bytes().to_vec());
        let cwk = CredentialWithKey { credential: cred.into(), signature_key: signer.public().into() };
        let mut ext = NostrGroupDataExtension::new(name, "forged", [o.pk()], [relay("wss://forged.example")], None, None, None, None);
        ext.nostr_group_id = nostr_group_id;
        let bytes = mdk_core::verif_hooks::ext_encode(&ext).map_err(ae("enc"))?;
        let exts = Extensions::from_vec(vec![
            Extension::Unknown(0xF2EE, UnknownExtension(bytes)),
            Extension::RequiredCapabilities(RequiredCapabilitiesExtension::new(&[ExtensionType::Unknown(0xF2EE)], &[], &[])),
        ])
        .map_err(ae("exts"))?;
        let caps = Capabilities::new(None, Some(&[cs]), Some(&[ExtensionType::LastResort, ExtensionType::Unknown(0xF2EE)]), None, None);
        let cfg = MlsGroupCreateConfig::builder().ciphersuite(cs).use_ratchet_tree_extension(true).capabilities(caps).with_group_context_extensions(exts).build();
        let mut g = MlsGroup::new_with_group_id(&m.provider, &signer, &cfg, openmls::group::GroupId::from_slice(gid.as_slice()), cwk).map_err(ae("new_with_group_id"))?;
        let kp = m.parse_key_package(target_kp).map_err(ae("kp"))?;
        let (_c, welcome, _gi) = g.add_members(&m.provider, &signer, &[kp]).map_err(ae("add_members"))?;
        g.merge_pending_commit(&m.provider).map_err(ae("merge"))?;
        let wbytes = welcome.tls_serialize_detached().map_err(ae("tls"))?;
        let content = nostr::base64::engine::general_purpose::STANDARD.encode(wbytes);
        let tags = vec![
            Tag::from_standardized(nostr::TagStandard::Relays(vec![relay("wss://forged.example")])),
            Tag::event(target_kp.id),
            Tag::client("MDK/forged".to_string()),
            Tag::custom(TagKind::Custom("encoding".into()), ["base64"]),
        ];
        let mut r = EventBuilder::new(Kind::MlsWelcome, content).tags(tags).build(o.pk());
        r.ensure_id();
        Ok(r)
    })
}
