//! E4 crashx (C12, and the at-rest scan of C13): process death at every storage step.
//! The call under test runs in a child process (this binary re-invoked) that dies with abort() at the
//! k-th storage tick; the parent reopens the database file and checks recovery.

use std::collections::BTreeMap;
use std::path::{Path, PathBuf};
use std::process::Command;

use mdk_core::prelude::*;
use mdk_core::{MDK, MdkConfig};
use mdk_sqlite_storage::MdkSqliteStorage;
use mdk_sqlite_storage::verif_hooks as hooks;
use nostr::{Event, Keys, UnsignedEvent};
use serde::{Deserialize, Serialize};
use serde_json::{Value, json};

use crate::families::*;
use crate::lab::*;
use crate::report::Report;
use crate::scenario::*;

#[derive(Debug, Clone, Serialize, Deserialize)]
pub enum Call {
    Process(Event),
    CreateMessage(String),
    SelfUpdate,
    UpdateData(String, Vec<String>),
    MergePending,
    ProcessWelcome(String, UnsignedEvent),
    AcceptWelcome(UnsignedEvent),
    /// create_group(name, key-package events of the invitees); the creator is the only admin
    CreateGroup(String, Vec<Event>),
    /// merge_pending_commit / create_message on the group a CreateGroup call of this history made (its id is random)
    MergeCreated,
    MessageCreated(String),
}

impl Call {
    pub fn label(&self) -> String {
        match self {
            Call::Process(_) => "process_message".into(),
            Call::CreateMessage(_) => "create_message".into(),
            Call::SelfUpdate => "self_update".into(),
            Call::UpdateData(..) => "update_group_data".into(),
            Call::MergePending => "merge_pending_commit".into(),
            Call::ProcessWelcome(..) => "process_welcome".into(),
            Call::AcceptWelcome(_) => "accept_welcome".into(),
            Call::CreateGroup(..) => "create_group".into(),
            Call::MergeCreated => "merge_pending_commit".into(),
            Call::MessageCreated(_) => "create_message".into(),
        }
    }
}

pub const CREATED_NAME: &str = "created-under-crash";

/// When set (by C14), every recovery (reopen, load, re-offer) is run under the log monitor and scanned for these values.
pub static MONITOR: std::sync::Mutex<Option<Vec<(String, Vec<u8>)>>> = std::sync::Mutex::new(None);

#[derive(Debug, Clone, Serialize, Deserialize)]
pub struct History {
    pub db: String,
    pub gid: String,
    pub secret_key: String,
    /// database key (hex) when the history runs on an encrypted database (C13)
    pub db_key: Option<String>,
    pub calls: Vec<(String, Call)>,
}

fn open(path: &Path, key: &Option<String>) -> Result<MdkSqliteStorage, String> {
    match key {
        None => MdkSqliteStorage::new_unencrypted(path).map_err(|e| format!("{e:?}")),
        Some(k) => {
            let bytes: [u8; 32] = hex::decode(k).map_err(|e| e.to_string())?.try_into().map_err(|_| "key length".to_string())?;
            MdkSqliteStorage::new_with_key(path, mdk_sqlite_storage::EncryptionConfig::new(bytes)).map_err(|e| format!("{e:?}"))
        }
    }
}

fn do_call(m: &MDK<MdkSqliteStorage>, gid: &GroupId, keys: &Keys, c: &Call) -> String {
    match c {
        Call::Process(ev) => result_kind(&m.process_message(ev)),
        Call::CreateMessage(content) => {
            let r = rumor(keys, content, 1_700_000_000);
            let rid = r.id;
            match m.create_message(gid, r) {
                Ok(ev) => {
                    // the stored message names the event this very call returned (the one that gets published)
                    let stored = rid.and_then(|id| m.get_message(gid, &id).ok().flatten());
                    match stored {
                        Some(sm) if sm.wrapper_event_id == ev.id => "Ok".into(),
                        Some(_) => "Ok(stored-message-names-another-wrapper)".into(),
                        None => "Ok(message-not-stored)".into(),
                    }
                }
                Err(e) => format!("Err({})", err_variant(&e)),
            }
        }
        Call::SelfUpdate => match m.self_update(gid) {
            Ok(_) => "Ok".into(),
            Err(e) => format!("Err({})", err_variant(&e)),
        },
        Call::UpdateData(name, relays) => match m.update_group_data(gid, mdk_core::groups::NostrGroupDataUpdate::new().name(name.clone()).relays(relays.iter().map(|u| nostr::RelayUrl::parse(u).unwrap()).collect())) {
            Ok(_) => "Ok".into(),
            Err(e) => format!("Err({})", err_variant(&e)),
        },
        Call::MergePending => match m.merge_pending_commit(gid) {
            Ok(_) => "Ok".into(),
            Err(e) => format!("Err({})", err_variant(&e)),
        },
        Call::ProcessWelcome(wid, r) => match m.process_welcome(&nostr::EventId::from_hex(wid).unwrap(), r) {
            Ok(_) => "Ok".into(),
            Err(e) => format!("Err({})", err_variant(&e)),
        },
        Call::CreateGroup(name, kps) => {
            let cfg = NostrGroupConfigData::new(name.clone(), "made under crash enumeration".into(), None, None, None, vec![nostr::RelayUrl::parse("wss://r0.example").unwrap()], vec![keys.public_key()]);
            match m.create_group(&keys.public_key(), kps.clone(), cfg) {
                Ok(_) => "Ok".into(),
                Err(e) => format!("Err({})", err_variant(&e)),
            }
        }
        Call::MergeCreated | Call::MessageCreated(_) => {
            // the newest group with the history's name that is usable
            let mut gs: Vec<_> = m.get_groups().unwrap_or_default().into_iter().filter(|g| g.name == CREATED_NAME).collect();
            gs.sort_by_key(|g| g.epoch);
            let Some(g) = gs.into_iter().find(|g| m.load_mls_group(&g.mls_group_id).ok().flatten().is_some()) else { return "NoGroup".into() };
            match c {
                Call::MergeCreated => match m.merge_pending_commit(&g.mls_group_id) {
                    Ok(_) => "Ok".into(),
                    Err(e) => format!("Err({})", err_variant(&e)),
                },
                Call::MessageCreated(content) => match m.create_message(&g.mls_group_id, rumor(keys, content, 1_700_000_000)) {
                    Ok(_) => "Ok".into(),
                    Err(e) => format!("Err({})", err_variant(&e)),
                },
                _ => unreachable!(),
            }
        }
        Call::AcceptWelcome(r) => {
            let w = r.id.and_then(|id| m.get_welcome(&id).ok().flatten());
            match w {
                Some(w) => match m.accept_welcome(&w) {
                    Ok(_) => "Ok".into(),
                    Err(e) => format!("Err({})", err_variant(&e)),
                },
                None => "NoWelcome".into(),
            }
        }
    }
}

/// Child entry point: `mdkv crash-child <history.json> <call index> <k|none>`.
/// Replays calls 0..idx in this very process, then runs call idx with process death armed at tick k.
/// Prints `TICKS <n> <labels...>` when the call completes.
pub fn child(args: &[String]) -> i32 {
    let h: History = serde_json::from_str(&std::fs::read_to_string(&args[0]).expect("history")).expect("history json");
    let idx: usize = args[1].parse().unwrap();
    let k: Option<u64> = args[2].parse().ok();
    let storage = open(Path::new(&h.db), &h.db_key).expect("open");
    let m = MDK::builder(storage).with_config(MdkConfig::default()).build();
    let gid = GroupId::from_slice(&hex::decode(&h.gid).unwrap());
    let keys = Keys::parse(&h.secret_key).unwrap();
    for (_, c) in &h.calls[..idx] {
        let _ = do_call(&m, &gid, &keys, c);
    }
    hooks::reset_ticks();
    let _ = hooks::record_labels(true);
    hooks::abort_at(k);
    let r = do_call(&m, &gid, &keys, &h.calls[idx].1);
    hooks::abort_at(None);
    let labels = hooks::record_labels(false);
    println!("TICKS {} {} {}", hooks::ticks(), r, labels.join(","));
    0
}

fn normalized(c: &Client, gid: &GroupId) -> Value {
    let Some(o) = c.group_obs(gid) else { return json!("no-group") };
    let mut msgs: Vec<String> = o.messages.iter().map(|m| format!("{}:{}:{}", m["content"].as_str().unwrap_or(""), m["state"].as_str().unwrap_or(""), m["epoch"])).collect();
    msgs.sort();
    let mut rec = o.record.clone();
    rec["last_message_id"] = json!(rec["last_message_id"].is_null());
    rec["last_message_at"] = json!(null);
    json!({"mls": o.mls.as_ref().map(|m| json!({"epoch": m.epoch, "members": m.members, "ext": m.ext})), "record": rec, "relays": o.relays, "messages": msgs, "pending_commit": o.pending_commit, "state": o.record_state, "proposals": o.proposal_refs})
}

/// names of the stored rollback snapshots of the group (deterministic: group id, epoch, commit id)
fn stored_snapshots(c: &Client, gid: &GroupId) -> Vec<String> {
    use crate::with_mdk;
    use mdk_storage_traits::MdkStorageProvider;
    use openmls::prelude::OpenMlsProvider;
    let mut v: Vec<String> = with_mdk!(c, m => m.provider.storage().list_group_snapshots(gid)).unwrap_or_default().into_iter().map(|(n, _)| n).collect();
    v.sort();
    v
}

pub struct CrashStats {
    pub points: u64,
}

/// Enumerate every crash point of every call of `calls`, starting from the database file `db0`.
pub fn enumerate(rep: &mut Report, prop: &str, hist_name: &str, db0: &Path, gid: &GroupId, keys: &Keys, db_key: Option<String>, calls: Vec<(String, Call)>, at_rest: Option<&(dyn Fn(&Path, &str) -> Vec<String> + Sync)>, double: bool) {
    let exe = std::env::current_exe().expect("exe");
    let dir = scratch_root().join(format!("crash-{hist_name}"));
    let _ = std::fs::create_dir_all(&dir);
    let hist_path = dir.join("history.json");
    // uninterrupted reference run, in-process
    let ref_db = dir.join("ref.db");
    std::fs::copy(db0, &ref_db).expect("copy");
    let mut ref_results: Vec<String> = Vec::new();
    let mut initial_norm = json!(null);
    // stored snapshot names at every call boundary of the uninterrupted run (index i = before call i)
    let mut ref_snaps: Vec<Vec<String>> = Vec::new();
    let reference: Vec<Value> = {
        let st = open(&ref_db, &db_key).expect("open ref");
        let m = MDK::builder(st).build();
        let mut v = Vec::new();
        let c = Client { name: "ref".into(), keys: keys.clone(), mdk: Mdk::Sql(m, std::sync::Arc::new(SqlStoreFile { path: ref_db.clone() })), reopened: true };
        initial_norm = normalized(&c, gid);
        ref_snaps.push(stored_snapshots(&c, gid));
        for (_, call) in &calls {
            if let Mdk::Sql(mm, _) = &c.mdk {
                ref_results.push(do_call(mm, gid, keys, call));
            }
            v.push(normalized(&c, gid));
            ref_snaps.push(stored_snapshots(&c, gid));
        }
        v
    };
    let ref_snaps = &ref_snaps;
    let final_ref = reference.last().cloned().unwrap_or(json!(null));
    rep.sample(json!({"history": hist_name, "uninterrupted_results": calls.iter().zip(ref_results.iter()).map(|(c, r)| format!("{}[{}] -> {}", c.1.label(), c.0, r)).collect::<Vec<_>>(), "final_record": final_ref["record"], "final_relays": final_ref["relays"]}));
    // the same history with one clean restart (drop, reopen) before call i: tells crash damage from the
    // effect any restart has (the property of C11)
    let restart_ref: Vec<Value> = (0..=calls.len())
        .map(|i| {
            let p = dir.join(format!("rr{i}.db"));
            std::fs::copy(db0, &p).expect("copy");
            let mut fin = json!(null);
            let mut pos = 0;
            for (from, to) in [(0, i), (i, calls.len())] {
                let st = open(&p, &db_key).expect("open rr");
                let m = MDK::builder(st).build();
                let c = Client { name: "rr".into(), keys: keys.clone(), mdk: Mdk::Sql(m, std::sync::Arc::new(SqlStoreFile { path: p.clone() })), reopened: true };
                if let Mdk::Sql(mm, _) = &c.mdk {
                    for (_, call) in &calls[from..to] {
                        let _ = do_call(mm, gid, keys, call);
                        pos += 1;
                    }
                }
                fin = normalized(&c, gid);
            }
            let _ = pos;
            let _ = std::fs::remove_file(&p);
            fin
        })
        .collect();
    let mut jobs: Vec<(usize, u64, String)> = Vec::new();
    // dry runs: number of ticks of every call
    for idx in 0..calls.len() {
        let db = dir.join(format!("dry-{idx}.db"));
        std::fs::copy(db0, &db).expect("copy");
        let h = History { db: db.to_string_lossy().to_string(), gid: hx(gid.as_slice()), secret_key: keys.secret_key().to_secret_hex(), db_key: db_key.clone(), calls: calls.clone() };
        std::fs::write(&hist_path, serde_json::to_string(&h).unwrap()).unwrap();
        let out = Command::new(&exe).args(["crash-child", hist_path.to_str().unwrap(), &idx.to_string(), "none"]).output().expect("child");
        let so = String::from_utf8_lossy(&out.stdout).to_string();
        let Some(line) = so.lines().find(|l| l.starts_with("TICKS ")) else {
            rep.machinery_errors.push(format!("crashx dry run of call {idx} failed: {}", String::from_utf8_lossy(&out.stderr).chars().take(300).collect::<String>()));
            return;
        };
        let parts: Vec<&str> = line.split(' ').collect();
        let n: u64 = parts[1].parse().unwrap_or(0);
        let labels: Vec<&str> = parts.get(3).map(|s| s.split(',').collect()).unwrap_or_default();
        rep.add_count(&format!("ticks_{hist_name}_{idx}_{}", calls[idx].1.label()), n);
        {
            // run-length form of the tick labels of this call, for the evidence
            let mut rl: Vec<String> = Vec::new();
            let mut i = 0;
            while i < labels.len() {
                let mut j = i;
                while j < labels.len() && labels[j] == labels[i] {
                    j += 1;
                }
                rl.push(if j - i > 1 { format!("{}x{}", labels[i], j - i) } else { labels[i].to_string() });
                i = j;
            }
            rep.extra.insert(format!("tick_labels_{hist_name}_{idx}_{}[{}]", calls[idx].1.label(), calls[idx].0), json!(rl.join(" ")));
        }
        for k in 0..n {
            jobs.push((idx, k, labels.get(k as usize).unwrap_or(&"?").to_string()));
        }
        let _ = std::fs::remove_file(&db);
    }
    // every crash point, in parallel
    let next = std::sync::atomic::AtomicUsize::new(0);
    let findings: std::sync::Mutex<Vec<(String, String, Value)>> = std::sync::Mutex::new(Vec::new());
    let points = std::sync::atomic::AtomicU64::new(0);
    let distinct: std::sync::Mutex<std::collections::BTreeSet<u64>> = std::sync::Mutex::new(Default::default());
    let dumps: std::sync::Mutex<BTreeMap<(usize, u64), BTreeMap<String, u64>>> = std::sync::Mutex::new(Default::default());
    let singles: std::sync::Mutex<BTreeMap<(usize, u64), (Value, Option<(String, String)>)>> = std::sync::Mutex::new(Default::default());
    std::thread::scope(|sc| {
        for t in 0..crate::e1::threads() {
            let (jobs, calls, dir, exe, db_key, findings, points, next, reference, final_ref, distinct, restart_ref, dumps, ref_results, initial_norm, singles) = (&jobs, &calls, &dir, &exe, &db_key, &findings, &points, &next, &reference, &final_ref, &distinct, &restart_ref, &dumps, &ref_results, &initial_norm, &singles);
            sc.spawn(move || loop {
                let i = next.fetch_add(1, std::sync::atomic::Ordering::Relaxed);
                if i >= jobs.len() {
                    break;
                }
                let (idx, k, label) = &jobs[i];
                let work = dir.join(format!("w{t}"));
                let _ = std::fs::remove_dir_all(&work);
                let _ = std::fs::create_dir_all(&work);
                // the database lives alone in its directory (the at-rest scan of C13 looks at every file in it)
                let _ = std::fs::create_dir_all(work.join("db"));
                let db = work.join("db").join("c.db");
                std::fs::copy(db0, &db).expect("copy");
                let hp = work.join("h.json");
                let h = History { db: db.to_string_lossy().to_string(), gid: hx(gid.as_slice()), secret_key: keys.secret_key().to_secret_hex(), db_key: db_key.clone(), calls: calls.clone() };
                std::fs::write(&hp, serde_json::to_string(&h).unwrap()).unwrap();
                let out = Command::new(exe).args(["crash-child", hp.to_str().unwrap(), &idx.to_string(), &k.to_string()]).output().expect("child");
                points.fetch_add(1, std::sync::atomic::Ordering::Relaxed);
                let call_label = calls[*idx].1.label();
                distinct.lock().unwrap().insert(h64(&format!("{hist_name}|{call_label}|{label}|{k}")));
                let site = format!("{call_label}[{}]@{label}", calls[*idx].0);
                if out.status.success() {
                    // the call finished before tick k was reached (k beyond the end on this run): nothing to check
                    continue;
                }
                // at-rest scan of the files the dead process left behind (C13)
                if let Some(scan) = at_rest {
                    for hit in scan(&work.join("db"), &site) {
                        findings.lock().unwrap().push((format!("{prop}|plaintext-at-rest-after-crash|{hit}"), format!("after a crash at {site} a database file contains {hit} in the clear"), json!({"site": site, "k": k})));
                    }
                    continue;
                }
                // 1. the file opens and every group loads
                let st = match open(&db, db_key) {
                    Ok(s) => s,
                    Err(e) => {
                        findings.lock().unwrap().push((format!("{prop}|database-does-not-open|{site}"), format!("after a crash at {site} (tick {k}) the database does not open: {e}"), json!({"site": site, "k": k})));
                        continue;
                    }
                };
                {
                    let mut th: BTreeMap<String, u64> = BTreeMap::new();
                    for line in sqlite_dump(&st) {
                        let t = line.split('|').next().unwrap_or("").to_string();
                        // a snapshot row's data embeds wall-clock fields of the rows it copies, which differ between the
                        // child processes being compared: which snapshot rows exist is what atomicity is about
                        let line = if t == "group_state_snapshots" { line.split("|row_data=").next().unwrap_or("").to_string() } else { line };
                        let e = th.entry(t).or_insert(0);
                        *e = e.wrapping_add(h64(&line));
                    }
                    dumps.lock().unwrap().insert((*idx, *k), th);
                }
                let m = MDK::builder(st).build();
                let c = Client { name: "rec".into(), keys: keys.clone(), mdk: Mdk::Sql(m, std::sync::Arc::new(SqlStoreFile { path: db.clone() })), reopened: true };
                let Mdk::Sql(mm, _) = &c.mdk else { continue };
                let mut load_ok = true;
                for g in c.groups() {
                    if mm.load_mls_group(&g.mls_group_id).is_err() {
                        load_ok = false;
                    }
                }
                if !load_ok {
                    findings.lock().unwrap().push((format!("{prop}|group-does-not-load|{site}"), format!("after a crash at {site} a group no longer loads"), json!({"site": site, "k": k})));
                    continue;
                }
                // 2. all-or-nothing for the relay set: it is the set before or the set after the call
                let here = normalized(&c, gid);
                let before = if *idx == 0 { Some(initial_norm) } else { Some(&reference[*idx - 1]) };
                let after = &reference[*idx];
                if let Some(b) = before {
                    let rel = |v: &Value| -> Vec<String> { v["relays"].as_array().map(|a| a.iter().filter_map(|x| x.as_str().map(|s| s.to_string())).collect()).unwrap_or_default() };
                    if rel(&here) != rel(b) && rel(&here) != rel(after) {
                        findings.lock().unwrap().push((format!("{prop}|relay-set-half-replaced|{call_label}@{label}"), format!("after a crash at {site} the relay set is {} (before the call {}, after it {})", here["relays"], b["relays"], after["relays"]), json!({"site": site, "k": k})));
                    }
                }
                // 2b. a rollback is one transaction that restores the group and consumes its snapshot: a process that dies inside
                // it finds, after reopening, the snapshots it had before the call (nothing restored, nothing consumed)
                if label.starts_with("restore:") {
                    let have = stored_snapshots(&c, gid);
                    if let Some(want) = ref_snaps.get(*idx) {
                        if have != *want {
                            let lost = want.iter().filter(|n| !have.contains(n)).count();
                            let extra = have.iter().filter(|n| !want.contains(n)).count();
                            findings.lock().unwrap().push((format!("{prop}|rollback-not-all-or-nothing|{hist_name}|{call_label}[{}]@{label}|snapshots-after-reopen:lost={lost},extra={extra}", calls[*idx].0), format!("after a crash at {site}, inside the rollback transaction, the reopened database holds other rollback snapshots of the group than before the call ({lost} gone, {extra} new) although the group itself was not rolled back"), json!({"history": hist_name, "site": site, "k": k, "before": want, "reopened": have})));
                        }
                    }
                }
                // 3. offering the interrupted call again, then all later ones, ends like the uninterrupted run
                let mut results = Vec::new();
                let monitor = MONITOR.lock().unwrap().clone();
                if monitor.is_some() {
                    crate::logcap::begin();
                }
                for (_, call) in &calls[*idx..] {
                    let r = do_call(mm, gid, keys, call);
                    if monitor.is_some() {
                        crate::logcap::note(r.clone());
                    }
                    results.push(r);
                }
                if let Some(secrets) = &monitor {
                    let recs = crate::logcap::end();
                    for l in crate::logcap::scan(&recs, secrets) {
                        findings.lock().unwrap().push((format!("C14|{l}"), format!("sensitive value in a log record / result while recovering from a crash at {site}: {l}"), json!({"site": site, "k": k})));
                    }
                    points.fetch_add(recs.len() as u64, std::sync::atomic::Ordering::Relaxed);
                    continue;
                }
                let fin = normalized(&c, gid);
                let mut my_sig: Option<(String, String)> = None;
                if fin != *final_ref && (fin == restart_ref[*idx] || fin == restart_ref[*idx + 1]) {
                    let sg = format!("{prop}|recovery-differs-like-clean-restart|{hist_name}|{call_label}[{}]", calls[*idx].0);
                    let wh = format!("after a crash inside {call_label}[{}], recovery ends in a different state than the uninterrupted run, the same state a clean restart at that call boundary ends in", calls[*idx].0);
                    my_sig = Some((sg.clone(), wh.clone()));
                    findings.lock().unwrap().push((sg, wh, json!({"history": hist_name, "site": site, "k": k})));
                } else if fin != *final_ref || results.iter().any(|r| r.starts_with("Ok(")) {
                    let keys_of = |a: &Value, b: &Value| -> String {
                        let mut d: Vec<String> = Vec::new();
                        for key in ["mls", "record", "relays", "messages", "pending_commit", "state", "proposals"] {
                            if a[key] != b[key] {
                                match (a[key].as_object(), b[key].as_object()) {
                                    (Some(x), Some(y)) => {
                                        let mut sub: Vec<&str> = x.keys().chain(y.keys()).filter(|f| x.get(*f) != y.get(*f)).map(|f| f.as_str()).collect();
                                        sub.sort();
                                        sub.dedup();
                                        d.push(format!("{key}({})", sub.join(",")));
                                    }
                                    _ => d.push(key.to_string()),
                                }
                            }
                        }
                        d.join("+")
                    };
                    let diff = keys_of(&fin, final_ref);
                    // what the reopened database looked like before anything was offered again
                    let reopened = if Some(&here) == before {
                        "as-before-the-call".to_string()
                    } else if here == *after {
                        "as-after-the-call".to_string()
                    } else {
                        format!("between(before:{};after:{})", before.map(|b| keys_of(&here, b)).unwrap_or_default(), keys_of(&here, after))
                    };
                    let again = if results.first() == ref_results.get(*idx) { "same-result".to_string() } else { format!("{}-instead-of-{}", results.first().cloned().unwrap_or_default(), ref_results.get(*idx).cloned().unwrap_or_default()) };
                    let sg = format!("{prop}|recovery-differs|{hist_name}|{call_label}[{}]@{label}|reopened:{reopened}|again:{again}|final:{diff}", calls[*idx].0);
                    let wh = format!("after a crash at {site} (tick {k}) the reopened database is {reopened}; offering the interrupted call again gives {again}; after all later calls the state differs from the uninterrupted run in {diff}");
                    my_sig = Some((sg.clone(), wh.clone()));
                    findings.lock().unwrap().push((
                        sg,
                        wh,
                        json!({"history": hist_name, "site": site, "k": k, "recovery_results": results, "got": fin, "want": final_ref}),
                    ));
                }
                singles.lock().unwrap().insert((*idx, *k), (fin, my_sig));
            });
        }
    });
    // second pass (thorough): the process dies again while the interrupted call is offered again
    let singles = singles.into_inner().unwrap();
    if double && at_rest.is_none() {
        let next = std::sync::atomic::AtomicUsize::new(0);
        let dpoints = std::sync::atomic::AtomicU64::new(0);
        let dsame = std::sync::atomic::AtomicU64::new(0);
        std::thread::scope(|sc| {
            for t in 0..crate::e1::threads() {
                let (jobs, calls, dir, exe, db_key, findings, next, final_ref, singles, dpoints, dsame) = (&jobs, &calls, &dir, &exe, &db_key, &findings, &next, &final_ref, &singles, &dpoints, &dsame);
                sc.spawn(move || loop {
                    let i = next.fetch_add(1, std::sync::atomic::Ordering::Relaxed);
                    if i >= jobs.len() {
                        break;
                    }
                    let (idx, k, label) = &jobs[i];
                    if !singles.contains_key(&(*idx, *k)) {
                        continue;
                    }
                    let work = dir.join(format!("d{t}"));
                    let _ = std::fs::remove_dir_all(&work);
                    let _ = std::fs::create_dir_all(&work);
                    let c1 = work.join("c1.db");
                    std::fs::copy(db0, &c1).expect("copy");
                    let hp = work.join("h.json");
                    let h = History { db: c1.to_string_lossy().to_string(), gid: hx(gid.as_slice()), secret_key: keys.secret_key().to_secret_hex(), db_key: db_key.clone(), calls: calls.clone() };
                    std::fs::write(&hp, serde_json::to_string(&h).unwrap()).unwrap();
                    let out = Command::new(exe).args(["crash-child", hp.to_str().unwrap(), &idx.to_string(), &k.to_string()]).output().expect("child");
                    if out.status.success() {
                        continue;
                    }
                    // sidecar files of the dead process belong to the database: copy the whole directory entry set
                    let tail: Vec<(String, Call)> = calls[*idx..].to_vec();
                    let c2 = work.join("c2.db");
                    let copy_db = |from: &Path, to: &Path| {
                        for suf in ["", "-wal", "-shm", "-journal"] {
                            let f = PathBuf::from(format!("{}{suf}", from.display()));
                            let g = PathBuf::from(format!("{}{suf}", to.display()));
                            let _ = std::fs::remove_file(&g);
                            if f.exists() {
                                let _ = std::fs::copy(&f, &g);
                            }
                        }
                    };
                    copy_db(&c1, &c2);
                    let h2 = History { db: c2.to_string_lossy().to_string(), gid: hx(gid.as_slice()), secret_key: keys.secret_key().to_secret_hex(), db_key: db_key.clone(), calls: tail.clone() };
                    let hp2 = work.join("h2.json");
                    std::fs::write(&hp2, serde_json::to_string(&h2).unwrap()).unwrap();
                    let out = Command::new(exe).args(["crash-child", hp2.to_str().unwrap(), "0", "none"]).output().expect("child");
                    let so = String::from_utf8_lossy(&out.stdout).to_string();
                    let Some(line) = so.lines().find(|l| l.starts_with("TICKS ")) else { continue };
                    let parts: Vec<&str> = line.split(' ').collect();
                    let n2: u64 = parts[1].parse().unwrap_or(0);
                    let labels2: Vec<&str> = parts.get(3).map(|s| s.split(',').collect()).unwrap_or_default();
                    for k2 in 0..n2 {
                        copy_db(&c1, &c2);
                        let out = Command::new(exe).args(["crash-child", hp2.to_str().unwrap(), "0", &k2.to_string()]).output().expect("child");
                        if out.status.success() {
                            continue;
                        }
                        dpoints.fetch_add(1, std::sync::atomic::Ordering::Relaxed);
                        let l2 = labels2.get(k2 as usize).copied().unwrap_or("?");
                        let site = format!("{}[{}]@{label} then again @{l2}", calls[*idx].1.label(), calls[*idx].0);
                        let st = match open(&c2, db_key) {
                            Ok(s) => s,
                            Err(e) => {
                                findings.lock().unwrap().push((format!("{prop}|database-does-not-open|{site}"), format!("after crashes at {site} the database does not open: {e}"), json!({"site": site, "k": k, "k2": k2})));
                                continue;
                            }
                        };
                        let m = MDK::builder(st).build();
                        let c = Client { name: "rec2".into(), keys: keys.clone(), mdk: Mdk::Sql(m, std::sync::Arc::new(SqlStoreFile { path: c2.clone() })), reopened: true };
                        let Mdk::Sql(mm, _) = &c.mdk else { continue };
                        if c.groups().iter().any(|g| mm.load_mls_group(&g.mls_group_id).is_err()) {
                            findings.lock().unwrap().push((format!("{prop}|group-does-not-load|{site}"), format!("after crashes at {site} a group no longer loads"), json!({"site": site, "k": k, "k2": k2})));
                            continue;
                        }
                        for (_, call) in &tail {
                            let _ = do_call(mm, gid, keys, call);
                        }
                        let fin2 = normalized(&c, gid);
                        if fin2 == *final_ref {
                            continue;
                        }
                        // the same end state as a single crash of this call: the same finding, reported under its signature
                        let same = singles.get(&(*idx, *k)).filter(|(f, _)| *f == fin2).or_else(|| singles.iter().find(|((i2, _), (f, _))| i2 == idx && *f == fin2).map(|(_, v)| v));
                        match same {
                            Some((_, Some((sg, wh)))) => {
                                dsame.fetch_add(1, std::sync::atomic::Ordering::Relaxed);
                                findings.lock().unwrap().push((sg.clone(), wh.clone(), json!({"site": site, "k": k, "k2": k2, "note": "reached again by a second crash during recovery"})));
                            }
                            _ => {
                                findings.lock().unwrap().push((
                                    format!("{prop}|second-crash-reaches-new-end-state|{hist_name}|{}[{}]@{label}|again@{l2}", calls[*idx].1.label(), calls[*idx].0),
                                    format!("crashes at {site}: the end state after recovery differs from the uninterrupted run and from every end state a single crash of this call reaches"),
                                    json!({"history": hist_name, "site": site, "k": k, "k2": k2, "got": fin2, "want": final_ref}),
                                ));
                            }
                        }
                    }
                });
            }
        });
        let dp = dpoints.load(std::sync::atomic::Ordering::Relaxed);
        rep.evaluations += dp;
        rep.transitions += dp;
        rep.add_count(&format!("double_crash_points_{hist_name}"), dp);
        rep.add_count(&format!("double_crash_same_end_state_as_single_{hist_name}"), dsame.load(std::sync::atomic::Ordering::Relaxed));
    }
    // all-or-nothing: every crash point inside one storage transaction leaves the database as it was when
    // the transaction began (the dump of the tables the transaction writes is the one seen at its first tick)
    let dumps = dumps.into_inner().unwrap();
    let mut open_tx: Option<(usize, u64, String, &'static str)> = None;
    let mut tx_groups = 0u64;
    for (idx, k, label) in &jobs {
        let kind: Option<&'static str> = if label.starts_with("snapshot:") { Some("snapshot") } else if label.starts_with("restore:") { Some("restore") } else if label.starts_with("replace_relays:") { Some("replace_relays") } else if label == "txn:commit" { open_tx.as_ref().map(|t| t.3) } else { None };
        match (&open_tx, kind) {
            (Some((i0, _, _, k0)), Some(kd)) if i0 == idx && *k0 == kd => {}
            (_, Some(kd)) => {
                open_tx = Some((*idx, *k, label.clone(), kd));
                tx_groups += 1;
            }
            (_, None) => open_tx = None,
        }
        if let Some((i0, kb, lb, kd)) = &open_tx {
            if (i0, kb) != (idx, k) {
                if let (Some(a), Some(b)) = (dumps.get(&(*i0, *kb)), dumps.get(&(*idx, *k))) {
                    let tables: Vec<&String> = match *kd {
                        "snapshot" => a.keys().chain(b.keys()).filter(|t| t.as_str() == "group_state_snapshots").collect(),
                        "replace_relays" => a.keys().chain(b.keys()).filter(|t| t.as_str() == "group_relays").collect(),
                        _ => a.keys().chain(b.keys()).collect(),
                    };
                    let mut bad: Vec<String> = tables.into_iter().filter(|t| a.get(*t) != b.get(*t)).cloned().collect();
                    bad.sort();
                    bad.dedup();
                    if !bad.is_empty() {
                        findings.lock().unwrap().push((
                            format!("{prop}|transaction-not-atomic|{kd}|{label}|{}", bad.join("+")),
                            format!("{}[{}]: a crash at {label} (tick {k}) inside the {kd} transaction leaves tables {} different from a crash at its first step {lb} (tick {kb})", calls[*idx].1.label(), calls[*idx].0, bad.join("+")),
                            json!({"history": hist_name, "call": idx, "k": k, "first_tick": kb}),
                        ));
                    }
                }
            }
        }
    }
    rep.add_count("storage_transactions_checked", tx_groups);
    for (sig, what, d) in findings.into_inner().unwrap() {
        rep.finding(sig, what, d);
    }
    let p = points.load(std::sync::atomic::Ordering::Relaxed);
    rep.evaluations += p;
    rep.transitions += p;
    rep.distinct.extend(distinct.into_inner().unwrap());
    rep.add_count("crash_points", p);
    let _ = std::fs::remove_dir_all(&dir);
}

/// Build the histories of C12 from a small world on SQLite and enumerate their crash points.
pub fn check_c12(rep: &mut Report, thorough: bool) {
    let m = ["A", "B", "C", "E", "Z"];
    let ad = ["A", "B"];
    let msg = |a: &str, c: &str| act(a, ActKind::Msg(c.into()), 5);
    let sc = base(
        "crash",
        &m,
        &ad,
        &["D"],
        vec![
            msg("C", "m0"),
            act("E", ActKind::Leave, 6),
            act("A", ActKind::Relays(vec!["wss://n1.example".into(), "wss://n2.example".into()]), 10).then(vec![msg("C", "m1"), act("A", ActKind::Add("D".into()), 30)]),
            act("B", ActKind::Rename("loser".into()), 20),
        ],
    );
    let w = match build_world(&sc, Bk::Sqlite) {
        Ok(w) => w,
        Err(e) => {
            rep.machinery_errors.push(format!("c12 world: {}", e.0));
            return;
        }
    };
    if std::env::var("VERIF_DEBUG").is_ok() {
        for p in &w.pool {
            eprintln!("pool {} {}", p.label, p.event.id);
        }
    }
    let ev = |s: &str| w.pool.iter().find(|p| p.label.starts_with(s)).map(|p| p.event.clone()).unwrap_or_else(|| panic!("no pool event {s}"));
    let z = &w.initial["Z"];
    let Mdk::Sql(_, zf) = &z.mdk else { return };
    // H1: no rollback after the crash point: what differs from the uninterrupted run is crash damage
    let calls: Vec<(String, Call)> = vec![
        ("application".into(), Call::Process(ev("n.C.msg0"))),
        ("proposal".into(), Call::Process(ev("n.E.leave1"))),
        ("commit".into(), Call::Process(ev("n.A.relays2"))),
        ("losing-commit".into(), Call::Process(ev("n.B.rename3"))),
        ("application-next-epoch".into(), Call::Process(ev("n2.C.msg0"))),
        ("commit-add".into(), Call::Process(ev("n2.A.add1"))),
        ("own".into(), Call::CreateMessage("from-z".into())),
        ("own".into(), Call::SelfUpdate),
        ("own".into(), Call::MergePending),
    ];
    enumerate(rep, "C12", "member", &zf.path, &w.gid, &z.keys, None, calls, None, thorough);
    // H2: the losing commit first, then the winner (snapshot, rollback, re-application)
    let calls: Vec<(String, Call)> = vec![
        ("application".into(), Call::Process(ev("n.C.msg0"))),
        ("commit".into(), Call::Process(ev("n.B.rename3"))),
        ("commit-with-rollback".into(), Call::Process(ev("n.A.relays2"))),
        ("application-after-rollback".into(), Call::Process(ev("n2.C.msg0"))),
    ];
    enumerate(rep, "C12", "rollback", &zf.path, &w.gid, &z.keys, None, calls, None, thorough);
    let _ = thorough;
    // H3: an admin's own commit that changes name and relays, applied with merge_pending_commit
    let a = &w.initial["A"];
    if let Mdk::Sql(_, af) = &a.mdk {
        let calls: Vec<(String, Call)> = vec![
            ("application".into(), Call::Process(ev("n.C.msg0"))),
            // A's client starts with its published Add commit still pending
            ("own-add-commit".into(), Call::MergePending),
            ("own".into(), Call::CreateMessage("from-a".into())),
        ];
        enumerate(rep, "C12", "admin", &af.path, &w.gid, &a.keys, None, calls, None, thorough);
    }

    // H4: B's client starts with its published rename commit pending
    let b = &w.initial["B"];
    if let Mdk::Sql(_, bf) = &b.mdk {
        let calls: Vec<(String, Call)> = vec![("own-rename-commit".into(), Call::MergePending), ("own".into(), Call::CreateMessage("from-b".into()))];
        enumerate(rep, "C12", "admin2", &bf.path, &w.gid, &b.keys, None, calls, None, thorough);
    }
    // H5: B sees the echo of its own (losing) commit first, then the winner: own-commit echo path, then rollback
    if let Mdk::Sql(_, bf) = &b.mdk {
        let calls: Vec<(String, Call)> = vec![
            ("own-commit-echo".into(), Call::Process(ev("n.B.rename3"))),
            ("commit-with-rollback".into(), Call::Process(ev("n.A.relays2"))),
            ("application-after-rollback".into(), Call::Process(ev("n2.C.msg0"))),
        ];
        enumerate(rep, "C12", "own-commit-echo", &bf.path, &w.gid, &b.keys, None, calls, None, thorough);
    }
    // H5b: A sees the echo of its own Add commit, which nobody competes with (it must be applied for A to go on)
    if let Mdk::Sql(_, af) = &a.mdk {
        let calls: Vec<(String, Call)> = vec![("sole-own-commit-echo".into(), Call::Process(ev("n2.A.add1"))), ("own".into(), Call::CreateMessage("from-a-after-echo".into()))];
        enumerate(rep, "C12", "sole-own-commit-echo", &af.path, &w.gid, &a.keys, None, calls, None, thorough);
    }
    // H6: C sees the echo of its own application message, then the commits
    let c = &w.initial["C"];
    if let Mdk::Sql(_, cf) = &c.mdk {
        let calls: Vec<(String, Call)> = vec![
            ("own-message-echo".into(), Call::Process(ev("n.C.msg0"))),
            ("commit".into(), Call::Process(ev("n.A.relays2"))),
            ("losing-commit".into(), Call::Process(ev("n.B.rename3"))),
        ];
        enumerate(rep, "C12", "own-message-echo", &cf.path, &w.gid, &c.keys, None, calls, None, thorough);
    }
    // a joiner: process and accept the welcome
    if let Some(d0) = w.prejoin.get("D") {
        if let (Mdk::Sql(_, df), Some((wid, rumor, _))) = (&d0.mdk, w.welcomes.iter().find(|x| x.2 == "D")) {
            let calls = vec![("welcome".into(), Call::ProcessWelcome(wid.to_hex(), rumor.clone())), ("welcome".into(), Call::AcceptWelcome(rumor.clone()))];
            enumerate(rep, "C12", "joiner", &df.path, &w.gid, &d0.keys, None, calls, None, thorough);
        }
    }
    creator_history(rep, thorough);
    rep.states += 1;
    rep.sample(json!({"history": "rollback", "call": "process_message(commit-with-rollback)", "crash_at": "restore:delete:group_relays", "then": "reopen, load every group, re-offer the commit and everything after it, compare with the uninterrupted run"}));
}

/// create_group is a creating call: the group id is random, so the comparison with an uninterrupted run is
/// structural: after a crash at any tick the database opens, every listed group loads and its record matches
/// its MLS state, and issuing create_group again followed by merge_pending_commit and create_message works.
pub fn creator_history(rep: &mut Report, thorough: bool) {
    let cfg = Cfg::default();
    let k = Client::new("K", Bk::Sqlite, &cfg);
    let y = Client::new("Y", Bk::Memory, &cfg);
    let v = Client::new("V", Bk::Memory, &cfg);
    let Mdk::Sql(_, kf) = &k.mdk else { return };
    let exe = std::env::current_exe().expect("exe");
    let dir = scratch_root().join("crash-creator");
    let _ = std::fs::create_dir_all(&dir);
    let calls: Vec<(String, Call)> = vec![("create".into(), Call::CreateGroup(CREATED_NAME.into(), vec![y.key_package_event(), v.key_package_event()])), ("created".into(), Call::MergeCreated), ("created".into(), Call::MessageCreated("first".into()))];
    let gid = GroupId::from_slice(&[0u8; 4]);
    let mk_hist = |db: &Path| History { db: db.to_string_lossy().to_string(), gid: hx(gid.as_slice()), secret_key: k.keys.secret_key().to_secret_hex(), db_key: None, calls: calls.clone() };
    let mut jobs: Vec<(usize, u64, String)> = Vec::new();
    for idx in 0..calls.len() {
        let db = dir.join(format!("dry-{idx}.db"));
        std::fs::copy(&kf.path, &db).expect("copy");
        let hp = dir.join("h.json");
        std::fs::write(&hp, serde_json::to_string(&mk_hist(&db)).unwrap()).unwrap();
        let out = Command::new(&exe).args(["crash-child", hp.to_str().unwrap(), &idx.to_string(), "none"]).output().expect("child");
        let so = String::from_utf8_lossy(&out.stdout).to_string();
        let Some(line) = so.lines().find(|l| l.starts_with("TICKS ")) else {
            rep.machinery_errors.push(format!("crashx creator dry run {idx} failed: {}", String::from_utf8_lossy(&out.stderr).chars().take(300).collect::<String>()));
            return;
        };
        let parts: Vec<&str> = line.split(' ').collect();
        if parts.get(2) != Some(&"Ok") {
            rep.machinery_errors.push(format!("crashx creator: uninterrupted call {idx} returned {:?}", parts.get(2)));
            return;
        }
        let n: u64 = parts[1].parse().unwrap_or(0);
        let labels: Vec<&str> = parts.get(3).map(|s| s.split(',').collect()).unwrap_or_default();
        rep.add_count(&format!("ticks_creator_{idx}_{}", calls[idx].1.label()), n);
        for kk in 0..n {
            jobs.push((idx, kk, labels.get(kk as usize).unwrap_or(&"?").to_string()));
        }
    }
    let _ = thorough;
    let next = std::sync::atomic::AtomicUsize::new(0);
    let findings: std::sync::Mutex<Vec<(String, String, Value)>> = std::sync::Mutex::new(Vec::new());
    let points = std::sync::atomic::AtomicU64::new(0);
    std::thread::scope(|sc| {
        for t in 0..crate::e1::threads() {
            let (jobs, calls, dir, exe, findings, points, next, kf, mk_hist, k) = (&jobs, &calls, &dir, &exe, &findings, &points, &next, kf, &mk_hist, &k);
            sc.spawn(move || loop {
                let i = next.fetch_add(1, std::sync::atomic::Ordering::Relaxed);
                if i >= jobs.len() {
                    break;
                }
                let (idx, kk, label) = &jobs[i];
                let work = dir.join(format!("w{t}"));
                let _ = std::fs::remove_dir_all(&work);
                let _ = std::fs::create_dir_all(work.join("db"));
                let db = work.join("db").join("c.db");
                std::fs::copy(&kf.path, &db).expect("copy");
                let hp = work.join("h.json");
                std::fs::write(&hp, serde_json::to_string(&mk_hist(&db)).unwrap()).unwrap();
                let out = Command::new(exe).args(["crash-child", hp.to_str().unwrap(), &idx.to_string(), &kk.to_string()]).output().expect("child");
                if out.status.success() {
                    continue;
                }
                points.fetch_add(1, std::sync::atomic::Ordering::Relaxed);
                let site = format!("{}@{label}", calls[*idx].1.label());
                let st = match open(&db, &None) {
                    Ok(s) => s,
                    Err(e) => {
                        findings.lock().unwrap().push((format!("C12|creator|database-does-not-open|{site}"), format!("after a crash at {site} (tick {kk}) the database does not open: {e}"), json!({"k": kk})));
                        continue;
                    }
                };
                let m = MDK::builder(st).build();
                let c = Client { name: "rec".into(), keys: k.keys.clone(), mdk: Mdk::Sql(m, std::sync::Arc::new(SqlStoreFile { path: db.with_extension("unused") })), reopened: true };
                let Mdk::Sql(mm, _) = &c.mdk else { continue };
                // every listed group loads, and its record mirrors its MLS state
                let mut torn = Vec::new();
                for g in c.groups() {
                    match mm.load_mls_group(&g.mls_group_id) {
                        Ok(Some(_)) => {
                            if let Some(go) = c.group_obs(&g.mls_group_id) {
                                if let Some(bad) = crate::props_e1::record_mismatch(&go) {
                                    torn.push(format!("record-differs-from-mls:{bad}"));
                                }
                            }
                        }
                        Ok(None) => torn.push("listed-group-without-mls-state".to_string()),
                        Err(_) => torn.push("listed-group-does-not-load".to_string()),
                    }
                }
                torn.sort();
                torn.dedup();
                // the interrupted call and the later ones, again
                let mut results = Vec::new();
                for (_, call) in &calls[*idx..] {
                    results.push(do_call(mm, &GroupId::from_slice(&[0u8; 4]), &k.keys, call));
                }
                let redo_ok = results.iter().all(|r| r == "Ok");
                let usable = c.groups().iter().filter(|g| g.name == CREATED_NAME && mm.load_mls_group(&g.mls_group_id).ok().flatten().is_some()).count();
                if !torn.is_empty() || !redo_ok || usable == 0 {
                    findings.lock().unwrap().push((
                        format!("C12|creator|{site}|after-reopen:{}|again:{}", if torn.is_empty() { "clean".to_string() } else { torn.join("+") }, results.join(",")),
                        format!("after a crash at {site} (tick {kk}): reopened database {}; issuing the calls again returns {results:?}; usable created groups: {usable}", if torn.is_empty() { "is consistent".to_string() } else { format!("has {}", torn.join(", ")) }),
                        json!({"k": kk, "site": site}),
                    ));
                }
            });
        }
    });
    for (sig, what, d) in findings.into_inner().unwrap() {
        rep.finding(sig, what, d);
    }
    let p = points.load(std::sync::atomic::Ordering::Relaxed);
    rep.evaluations += p;
    rep.transitions += p;
    rep.add_count("crash_points_creator", p);
    let _ = std::fs::remove_dir_all(&dir);
}

/// C14 on crash recovery: the histories of C12 with every recovery run under the log monitor.
pub fn check_c14_recovery(rep: &mut Report) {
    let m = ["A", "B", "C", "E", "Z"];
    let ad = ["A", "B"];
    let msg = |a: &str, c: &str| act(a, ActKind::Msg(c.into()), 5);
    let sc = base("crash-logs", &m, &ad, &[], vec![msg("C", "m0"), act("A", ActKind::Relays(vec!["wss://n1.example".into()]), 10).then(vec![msg("C", "m1")]), act("B", ActKind::Rename("loser".into()), 20)]);
    let Ok(w) = build_world(&sc, Bk::Sqlite) else {
        rep.machinery_errors.push("c14 recovery world".into());
        return;
    };
    let ev = |s: &str| w.pool.iter().find(|p| p.label.starts_with(s)).map(|p| p.event.clone()).unwrap_or_else(|| panic!("no pool event {s}"));
    let z = &w.initial["Z"];
    let Mdk::Sql(_, zf) = &z.mdk else { return };
    let calls: Vec<(String, Call)> = vec![
        ("application".into(), Call::Process(ev("n.C.msg0"))),
        ("commit".into(), Call::Process(ev("n.B.rename2"))),
        ("commit-with-rollback".into(), Call::Process(ev("n.A.relays1"))),
        ("application-after-rollback".into(), Call::Process(ev("n1.C.msg0"))),
    ];
    *MONITOR.lock().unwrap() = Some(w.secrets.clone());
    enumerate(rep, "C14", "recovery-logs", &zf.path, &w.gid, &z.keys, None, calls, None, false);
    *MONITOR.lock().unwrap() = None;
}
