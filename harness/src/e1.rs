//! E1 driver: scenarios -> worlds -> per-member graphs -> oracles, on a thread pool.

use std::sync::Mutex;
use std::sync::atomic::{AtomicUsize, Ordering};

use serde_json::json;

use crate::explore::*;
use crate::lab::*;
use crate::props_e1::*;
use crate::report::Report;
use crate::scenario::*;

#[derive(Clone)]
pub struct E1Job {
    pub sc: Scenario,
    pub backend: Bk,
    pub regimes: Vec<Regime>,
    /// None = every member that has an initial client
    pub members: Option<Vec<String>>,
    pub expect_converge: bool,
    pub with_local_ops: bool,
    pub with_restart: bool,
    pub with_welcomes: bool,
    pub welcome_consent: u8,
    pub prejoin: bool,
    pub rejoin: bool,
    /// mutate the world after it was built (extra adversarial invitations, ...)
    pub world_hook: Option<fn(&mut World)>,
    pub max_states: usize,
}

impl E1Job {
    pub fn new(sc: Scenario) -> E1Job {
        E1Job { sc, backend: Bk::Memory, regimes: vec![Regime::Causal, Regime::Unrestricted], members: None, expect_converge: true, with_local_ops: true, with_restart: false, with_welcomes: false, welcome_consent: 0, prejoin: false, rejoin: false, world_hook: None, max_states: 20000 }
    }
    pub fn backend(mut self, b: Bk) -> Self {
        self.backend = b;
        self
    }
    pub fn no_converge(mut self) -> Self {
        self.expect_converge = false;
        self
    }
    pub fn regimes(mut self, r: Vec<Regime>) -> Self {
        self.regimes = r;
        self
    }
    pub fn members(mut self, m: &[&str]) -> Self {
        self.members = Some(m.iter().map(|s| s.to_string()).collect());
        self
    }
}

pub type GraphCheck = dyn Fn(&Ctx, &mut Report, &E1Job) + Sync;

pub fn threads() -> usize {
    std::env::var("VERIF_THREADS").ok().and_then(|s| s.parse().ok()).unwrap_or_else(|| std::thread::available_parallelism().map(|n| n.get()).unwrap_or(4))
}

pub fn run_e1(jobs: Vec<E1Job>, check: &GraphCheck, rep: &mut Report) {
    let jobs: Vec<E1Job> = match std::env::var("VERIF_ONLY") {
        Ok(f) => jobs.into_iter().filter(|j| j.sc.name.contains(&f)).collect(),
        Err(_) => jobs,
    };
    let next = AtomicUsize::new(0);
    let out: Mutex<Vec<Report>> = Mutex::new(Vec::new());
    let prop = rep.prop.clone();
    let tier = rep.tier.clone();
    let level = rep.level.clone();
    let deadline = std::env::var("VERIF_WALL_CAP_S").ok().and_then(|s| s.parse::<u64>().ok()).map(|s| std::time::Instant::now() + std::time::Duration::from_secs(s));
    let skipped = AtomicUsize::new(0);
    std::thread::scope(|sc| {
        for _ in 0..threads().min(jobs.len().max(1)) {
            sc.spawn(|| {
                loop {
                    let i = next.fetch_add(1, Ordering::SeqCst);
                    if i >= jobs.len() {
                        break;
                    }
                    if let Some(d) = deadline {
                        if std::time::Instant::now() > d {
                            skipped.fetch_add(1, Ordering::SeqCst);
                            continue;
                        }
                    }
                    let job = &jobs[i];
                    let mut r = Report::new(&prop, &tier, &level);
                    run_job(job, check, &mut r);
                    out.lock().unwrap().push(r);
                }
            });
        }
    });
    for r in out.into_inner().unwrap() {
        rep.merge(r);
    }
    let sk = skipped.load(Ordering::SeqCst);
    if sk > 0 {
        rep.exhaustive = false;
        rep.add_count("scenarios_skipped_by_wall_cap", sk as u64);
    }
    rep.add_count("scenarios", (jobs.len() - sk) as u64);
}

fn run_job(job: &E1Job, check: &GraphCheck, rep: &mut Report) {
    let w = match build_world(&job.sc, job.backend) {
        Ok(mut w) => {
            if let Some(h) = job.world_hook {
                h(&mut w);
            }
            w
        }
        Err(e) => {
            rep.machinery_errors.push(format!("scenario {}: {}", job.sc.name, e.0));
            return;
        }
    };
    let members: Vec<String> = match &job.members {
        Some(m) => m.clone(),
        None => w.initial.keys().cloned().collect(),
    };
    for m in &members {
        if !w.initial.contains_key(m) && !(job.prejoin && w.prejoin.contains_key(m)) {
            continue;
        }
        for regime in &job.regimes {
            let opts = ExploreOpts { regime: *regime, max_states: job.max_states, with_restart: job.with_restart, with_local_ops: job.with_local_ops, keep_key_json: false, pool_filter: None, with_welcomes: job.with_welcomes, welcome_consent: job.welcome_consent, prejoin: job.prejoin, rejoin: job.rejoin };
            let g = explore(&w, m, &opts);
            if std::env::var("VERIF_DUMP_EDGES").is_ok() {
                for (si, es) in g.edges.iter().enumerate() {
                    for e in es {
                        eprintln!("edge {} {m} s{si} --{}--> s{} : {}", job.sc.name, e.action.label(&w), e.target, e.result);
                    }
                }
            }
            rep.states += g.states.len() as u64;
            rep.transitions += g.transitions as u64;
            rep.add_count("graphs", 1);
            rep.add_count("log_records_scanned", g.log_records as u64);
            if g.capped {
                rep.exhaustive = false;
                rep.add_count("graphs_capped", 1);
            }
            let cx = Ctx { w: &w, g: &g };
            let before = rep.findings.len();
            check(&cx, rep, job);
            // conformance / determinism gate: re-execute recorded traces on the real code
            let mut to_validate: Vec<Vec<Action>> = Vec::new();
            let mut seen = std::collections::BTreeSet::new();
            for f in &rep.findings[before..] {
                if seen.insert(f.signature.clone()) {
                    if let Ok(t) = serde_json::from_value::<Vec<Action>>(f.detail["trace"].clone()) {
                        to_validate.push(t);
                    }
                }
            }
            let n = g.states.len();
            let stride = (n / 8).max(1);
            let mut s = n - 1;
            loop {
                to_validate.push(g.path_to(s));
                if s < stride {
                    break;
                }
                s -= stride;
            }
            for t in to_validate {
                match validate_trace(&w, &g, &t) {
                    Ok(()) => rep.traces_validated += 1,
                    Err(e) => rep.machinery_errors.push(format!("determinism gate: scenario {} member {m} {regime:?}: {e}", job.sc.name)),
                }
            }
            if rep.samples.len() < 3 && n > 1 {
                let t = g.path_to(n - 1);
                rep.sample(json!({"scenario": job.sc.name, "member": m, "regime": format!("{regime:?}"), "backend": format!("{:?}", job.backend), "states": n, "trace_to_last_state": trace_labels(&cx, &t)}));
            }
        }
    }
}
