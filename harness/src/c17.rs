//! C17: media and group-image encryption round-trips, is tamper-evident, outlives epochs.

use mdk_core::encrypted_media::crypto::derive_encryption_key;
use mdk_core::encrypted_media::types::MediaReference;
use mdk_core::extension::group_image::{decrypt_group_image, prepare_group_image_for_upload_with_options};
use mdk_core::media_processing::MediaProcessingOptions;
use mdk_core::prelude::*;
use mdk_storage_traits::Secret;
use nostr::{Event, EventBuilder, Kind};
use serde_json::json;

use crate::lab::*;
use crate::report::Report;
use crate::with_mdk;

fn png(w: u32, h: u32) -> Vec<u8> {
    let img = image::RgbImage::from_fn(w, h, |x, y| image::Rgb([(x * 40) as u8, (y * 40) as u8, 128]));
    let mut out = std::io::Cursor::new(Vec::new());
    img.write_to(&mut out, image::ImageFormat::Png).expect("png");
    out.into_inner()
}

fn jpeg(w: u32, h: u32) -> Vec<u8> {
    let img = image::RgbImage::from_fn(w, h, |x, y| image::Rgb([(x * 40) as u8, (y * 40) as u8, 128]));
    let mut out = std::io::Cursor::new(Vec::new());
    img.write_to(&mut out, image::ImageFormat::Jpeg).expect("jpeg");
    out.into_inner()
}

struct Lab {
    a: Client,
    b: Client,
    n: Client,
    gid: GroupId,
    gid2: GroupId,
}

fn lab(backend: Bk) -> Lab {
    let cfg = Cfg::default();
    let a = Client::new("A", backend, &cfg);
    let b = Client::new("B", backend, &cfg);
    let n = Client::new("N", backend, &cfg);
    let mk = |name: &str| {
        let cfgd = NostrGroupConfigData::new(name.into(), "d".into(), None, None, None, vec![relay("wss://m.example")], vec![a.pk()]);
        let kp = b.key_package_event();
        let r = with_mdk!(a, m => m.create_group(&a.pk(), vec![kp], cfgd)).expect("group");
        let wid = nostr::EventId::from_slice(&crate::scenario::sha2_32(name.as_bytes())).unwrap();
        let wl = with_mdk!(b, m => m.process_welcome(&wid, &r.welcome_rumors[0])).expect("welcome");
        with_mdk!(b, m => m.accept_welcome(&wl)).expect("accept");
        r.group.mls_group_id
    };
    let gid = mk("g1");
    let gid2 = mk("g2");
    // the outsider has an unrelated group of its own
    let cfgd = NostrGroupConfigData::new("own".into(), "d".into(), None, None, None, vec![relay("wss://own.example")], vec![n.pk()]);
    let _ = with_mdk!(n, m => m.create_group(&n.pk(), vec![], cfgd));
    Lab { a, b, n, gid, gid2 }
}

pub fn run(rep: &mut Report, backend: Bk, thorough: bool) {
    let l = lab(backend);
    let sizes_small: Vec<usize> = vec![0, 1, 15, 16, 17, 63, 64, 65];
    let sizes_big: Vec<usize> = if thorough { vec![65535, 65536, 65537, 1 << 20] } else { vec![65537] };
    let payload = |n: usize| -> Vec<u8> { (0..n).map(|i| (i * 7 + 3) as u8).collect() };
    let mimes: Vec<(&str, &str)> = vec![("text/plain", "note.txt"), ("application/pdf", "doc.pdf"), ("application/octet-stream", "blob.bin"), ("audio/mpeg", "a.mp3"), ("video/mp4", "v.mp4")];
    let dec = |c: &Client, gid: &GroupId, data: &[u8], r: &MediaReference| with_mdk!(c, m => m.media_manager(gid.clone()).decrypt_from_download(data, r));

    // ---- A0: file-name shapes through the announced tag ----------------------------------------------------------------
    // the exact name bytes enter the key derivation; whatever name the sender's encrypt accepts must come back unchanged from the
    // parsed tag and decrypt for the other member (seeded change C17-9: the tag parser trims values)
    for name in [" lead.txt", "trail.txt ", "  both  .txt ", "in  ner.txt", "tab\tname.txt", "\u{00a0}nbsp.txt", "caf\u{e9}.txt", "x", ".hidden", "UPPER.TXT", "a.b.c.tar.gz", "semi;colon.txt", "quote\"q.txt"] {
        let data = payload(17);
        let up = match with_mdk!(l.a, m => m.media_manager(l.gid.clone()).encrypt_for_upload(&data, "text/plain", name)) {
            Ok(u) => u,
            Err(e) => {
                rep.outcome(&format!("encrypt-refused-name:{name:?}:{}", format!("{e:?}").split('(').next().unwrap_or("")));
                continue;
            }
        };
        rep.case(&format!("name-roundtrip|{name:?}"));
        let tag = with_mdk!(l.a, m => m.media_manager(l.gid.clone()).create_imeta_tag(&up, "https://blossom.example/f"));
        match with_mdk!(l.b, m => m.media_manager(l.gid.clone()).parse_imeta_tag(&tag)) {
            Ok(r) => {
                if r.filename != up.filename {
                    rep.finding("C17|imeta-roundtrip-changes-the-file-name".into(), format!("the tag made for file name {:?} parses back to {:?}", up.filename, r.filename), json!({"name": name, "backend": format!("{backend:?}")}));
                }
                match dec(&l.b, &l.gid, &up.encrypted_data, &r) {
                    Ok(p) if p == data => {}
                    Ok(_) => rep.finding("C17|roundtrip-different-bytes|other-member|file-name-shape".into(), format!("other member decrypts to different bytes (file name {name:?})"), json!({"name": name})),
                    Err(e) => rep.finding("C17|roundtrip-fails|other-member|file-name-shape".into(), format!("the other member cannot decrypt a file the sender's encrypt accepted under the name {name:?}: {e:?}"), json!({"name": name, "backend": format!("{backend:?}")})),
                }
            }
            Err(e) => rep.finding("C17|imeta-refused|file-name-shape".into(), format!("B cannot parse A's imeta tag for a file name A's encrypt accepted ({name:?}): {e:?}"), json!({"name": name})),
        }
    }

    // ---- A: round trip + every single-bit / single-field tamper ---------------------------------------------------
    for (mime, name) in &mimes {
        for n in sizes_small.iter().chain(sizes_big.iter()) {
            if !thorough && *mime != "text/plain" && *n > 17 {
                continue;
            }
            let data = payload(*n);
            let up = match with_mdk!(l.a, m => m.media_manager(l.gid.clone()).encrypt_for_upload(&data, mime, name)) {
                Ok(u) => u,
                Err(e) => {
                    rep.outcome(&format!("encrypt-refused:{mime}:{n}:{}", format!("{e:?}").split('(').next().unwrap_or("")));
                    continue;
                }
            };
            let tag = with_mdk!(l.a, m => m.media_manager(l.gid.clone()).create_imeta_tag(&up, "https://blossom.example/f"));
            let reference = match with_mdk!(l.b, m => m.media_manager(l.gid.clone()).parse_imeta_tag(&tag)) {
                Ok(r) => r,
                Err(e) => {
                    rep.finding("C17|imeta-refused".into(), format!("B cannot parse A's imeta tag: {e:?}"), json!({"mime": mime, "size": n}));
                    continue;
                }
            };
            rep.case(&format!("roundtrip|{mime}|{n}"));
            // sender and the other member get the same bytes; the non-member gets nothing
            for (who, c) in [("sender", &l.a), ("other-member", &l.b)] {
                match dec(c, &l.gid, &up.encrypted_data, &reference) {
                    Ok(p) if p == data => {}
                    Ok(_) => rep.finding(format!("C17|roundtrip-different-bytes|{who}"), format!("{who} decrypts to different bytes ({mime}, {n} B)"), json!({"mime": mime, "size": n})),
                    Err(e) => rep.finding(format!("C17|roundtrip-fails|{who}"), format!("{who} cannot decrypt ({mime}, {n} B): {e:?}"), json!({"mime": mime, "size": n, "backend": format!("{backend:?}")})),
                }
            }
            if dec(&l.n, &l.gid, &up.encrypted_data, &reference).is_ok() {
                rep.finding("C17|non-member-decrypts".into(), "a client that is not in the group decrypts the file".into(), json!({"mime": mime, "size": n}));
            }
            // the same file in the other group of the same two users uses another key
            if dec(&l.b, &l.gid2, &up.encrypted_data, &reference).is_ok() {
                rep.finding("C17|other-group-decrypts".into(), "the file decrypts under another group's secret".into(), json!({"mime": mime, "size": n}));
            }
            // tamper: every bit of ciphertext and nonce (all sizes <= 65; a few positions for the large ones)
            let ct = &up.encrypted_data;
            let positions: Vec<usize> = if ct.len() <= 65 + 16 { (0..ct.len() * 8).collect() } else { vec![0, 7, ct.len() * 4, ct.len() * 8 - 1] };
            for bit in positions {
                let mut t = ct.clone();
                t[bit / 8] ^= 1 << (bit % 8);
                rep.case(&format!("flip-ct|{mime}|{n}|{bit}"));
                if let Ok(p) = dec(&l.b, &l.gid, &t, &reference) {
                    rep.finding("C17|tampered-ciphertext-accepted".into(), format!("flipping ciphertext bit {bit} still decrypts ({} bytes, same={})", p.len(), p == data), json!({"mime": mime, "size": n, "bit": bit}));
                }
            }
            for bit in 0..96 {
                let mut r2 = reference.clone();
                r2.nonce[bit / 8] ^= 1 << (bit % 8);
                rep.case(&format!("flip-nonce|{mime}|{n}|{bit}"));
                if dec(&l.b, &l.gid, ct, &r2).is_ok() {
                    rep.finding("C17|tampered-nonce-accepted".into(), format!("flipping nonce bit {bit} still decrypts"), json!({"mime": mime, "size": n, "bit": bit}));
                }
            }
            // single-field changes of the reference
            let mut variants: Vec<(&str, MediaReference)> = Vec::new();
            let mut r2 = reference.clone();
            r2.filename = format!("x{}", reference.filename);
            variants.push(("filename", r2));
            let mut r2 = reference.clone();
            r2.mime_type = if reference.mime_type == "text/plain" { "application/pdf".into() } else { "text/plain".into() };
            variants.push(("mime", r2));
            let mut r2 = reference.clone();
            r2.scheme_version = "mip04-v1".into();
            variants.push(("scheme-version", r2));
            let mut r2 = reference.clone();
            r2.scheme_version = "mip04-v3".into();
            variants.push(("scheme-version-unknown", r2));
            for bit in [0usize, 100, 255] {
                let mut r2 = reference.clone();
                r2.original_hash[bit / 8] ^= 1 << (bit % 8);
                variants.push(("content-hash", r2));
            }
            // the same at the level of the announced tag: every single-bit change of the scheme-version value, and white
            // space around it, must not lead to the plaintext (refused by the parser or by decryption)
            if *n <= 17 {
                let tag = with_mdk!(l.a, m => m.media_manager(l.gid.clone()).create_imeta_tag(&up, "https://b.example/t"));
                let vals: Vec<String> = tag.clone().to_vec();
                let vcur = vals.iter().find_map(|v| v.strip_prefix("v ").map(|x| x.to_string())).unwrap_or_default();
                let mut spellings: Vec<String> = Vec::new();
                for bit in 0..vcur.len() * 8 {
                    let mut b = vcur.clone().into_bytes();
                    b[bit / 8] ^= 1 << (bit % 8);
                    if let Ok(sx) = String::from_utf8(b) {
                        spellings.push(sx);
                    }
                }
                spellings.push(format!("{vcur} "));
                spellings.push(format!(" {vcur}"));
                spellings.push(format!("{vcur}\t"));
                spellings.push(vcur.to_uppercase());
                for sp in spellings {
                    let v2: Vec<String> = vals.iter().map(|v| if v.starts_with("v ") { format!("v {sp}") } else { v.clone() }).collect();
                    let Ok(t2) = nostr::Tag::parse(v2) else { continue };
                    rep.case(&format!("tag-scheme-version|{mime}|{n}|{}", sp.escape_default()));
                    rep.evaluations += 1;
                    let got = with_mdk!(l.b, m => m.media_manager(l.gid.clone()).parse_imeta_tag(&t2)).ok().and_then(|r| dec(&l.b, &l.gid, ct, &r).ok());
                    if got.is_some() {
                        rep.finding("C17|changed-scheme-version-in-tag-accepted".into(), format!("the announced scheme version changed to {sp:?} still decrypts"), json!({"mime": mime, "size": n, "spelling": sp}));
                    }
                }
            }
            for (label, r2) in variants {
                rep.case(&format!("field|{label}|{mime}|{n}"));
                if let Ok(p) = dec(&l.b, &l.gid, ct, &r2) {
                    rep.finding(format!("C17|changed-{label}-accepted"), format!("decryption succeeds although the {label} was changed ({} bytes)", p.len()), json!({"mime": mime, "size": n, "field": label}));
                }
            }
        }
    }
    // MIME spellings: canonicalisation makes them the same file
    for spelling in ["TEXT/PLAIN", "text/plain; charset=utf-8", "  text/plain  ", "Text/Plain;x=y"] {
        let data = payload(33);
        match with_mdk!(l.a, m => m.media_manager(l.gid.clone()).encrypt_for_upload(&data, spelling, "s.txt")) {
            Ok(up) => {
                let tag = with_mdk!(l.a, m => m.media_manager(l.gid.clone()).create_imeta_tag(&up, "https://b.example/s"));
                let ok = with_mdk!(l.b, m => m.media_manager(l.gid.clone()).parse_imeta_tag(&tag)).ok().and_then(|r| dec(&l.b, &l.gid, &up.encrypted_data, &r).ok()).map(|p| p == data).unwrap_or(false);
                rep.case(&format!("spelling|{spelling}"));
                if !ok {
                    rep.finding("C17|mime-spelling-breaks-roundtrip".into(), format!("a file announced as {spelling:?} does not round-trip"), json!({"spelling": spelling}));
                }
            }
            Err(e) => rep.outcome(&format!("spelling-refused:{spelling}:{e:?}")),
        }
    }
    // images: type is checked against the bytes
    for (mime, name, data) in [("image/png", "p.png", png(1, 1)), ("image/png", "q.png", png(8, 8)), ("image/jpeg", "j.jpg", jpeg(4, 4))] {
        match with_mdk!(l.a, m => m.media_manager(l.gid.clone()).encrypt_for_upload(&data, mime, name)) {
            Ok(up) => {
                let tag = with_mdk!(l.a, m => m.media_manager(l.gid.clone()).create_imeta_tag(&up, "https://b.example/i"));
                let got = with_mdk!(l.b, m => m.media_manager(l.gid.clone()).parse_imeta_tag(&tag)).ok().and_then(|r| dec(&l.b, &l.gid, &up.encrypted_data, &r).ok());
                rep.case(&format!("image|{mime}|{}", data.len()));
                match got {
                    Some(p) => {
                        use sha2::Digest;
                        let h: [u8; 32] = sha2::Sha256::digest(&p).into();
                        if h != up.original_hash {
                            rep.finding("C17|image-roundtrip-hash-differs".into(), format!("{mime}: decrypted bytes do not hash to the announced hash"), json!({"mime": mime}));
                        }
                    }
                    None => rep.finding("C17|image-roundtrip-fails".into(), format!("{mime}: the other member cannot decrypt"), json!({"mime": mime})),
                }
            }
            Err(e) => rep.outcome(&format!("image-encrypt-refused:{mime}:{}", format!("{e:?}").chars().take(40).collect::<String>())),
        }
    }
    // different files, names, types or groups never share a key
    {
        let mut keys: Vec<(String, [u8; 32])> = Vec::new();
        for g in [&l.gid, &l.gid2] {
            for hbyte in [1u8, 2, 3] {
                for name in ["a.txt", "b.txt", "a.txt "] {
                    for mime in ["text/plain", "application/pdf"] {
                        if let Ok(k) = with_mdk!(l.a, m => derive_encryption_key(m, g, "mip04-v2", &[hbyte; 32], mime, name)) {
                            keys.push((format!("{}|{hbyte}|{name}|{mime}", hx(&g.as_slice()[..2])), *k));
                        }
                    }
                }
            }
        }
        for i in 0..keys.len() {
            for j in i + 1..keys.len() {
                rep.case(&format!("keypair|{i}|{j}"));
                if keys[i].1 == keys[j].1 {
                    rep.finding("C17|two-files-share-a-key".into(), format!("{} and {} derive the same key", keys[i].0, keys[j].0), json!({"a": keys[i].0, "b": keys[j].0}));
                }
            }
        }
        rep.add_count("key_pairs_compared", (keys.len() * (keys.len() - 1) / 2) as u64);
    }

    // ---- group image, v2 (seed) and v1 (key used directly) ---------------------------------------------------------------
    {
        let img = png(4, 4);
        match prepare_group_image_for_upload_with_options(&img, "image/png", &MediaProcessingOptions::validation_only()) {
            Ok(up) => {
                let enc: Vec<u8> = (*up.encrypted_data).clone();
                let ok = decrypt_group_image(&enc, Some(&up.encrypted_hash), &up.image_key, &up.image_nonce);
                rep.case("group-image|v2|roundtrip");
                match ok {
                    Ok(p) if p == img => {}
                    Ok(_) => rep.finding("C17|group-image-different-bytes".into(), "the v2 group image decrypts to different bytes".into(), json!({})),
                    Err(e) => rep.finding("C17|group-image-roundtrip-fails".into(), format!("v2 group image does not decrypt with the published seed and nonce: {e:?}"), json!({})),
                }
                for bit in 0..enc.len() * 8 {
                    let mut t = enc.clone();
                    t[bit / 8] ^= 1 << (bit % 8);
                    rep.case(&format!("group-image|flip-ct|{bit}"));
                    // with the published hash the substitution is caught by the hash, without it by the AEAD tag
                    if decrypt_group_image(&t, Some(&up.encrypted_hash), &up.image_key, &up.image_nonce).is_ok() || decrypt_group_image(&t, None, &up.image_key, &up.image_nonce).is_ok() {
                        rep.finding("C17|group-image-tampered-ciphertext-accepted".into(), format!("flipping bit {bit} of the encrypted group image still decrypts"), json!({"bit": bit}));
                    }
                }
                for bit in 0..96 {
                    let mut nn = *up.image_nonce;
                    nn[bit / 8] ^= 1 << (bit % 8);
                    rep.case(&format!("group-image|flip-nonce|{bit}"));
                    if decrypt_group_image(&enc, Some(&up.encrypted_hash), &up.image_key, &Secret::new(nn)).is_ok() {
                        rep.finding("C17|group-image-tampered-nonce-accepted".into(), format!("flipping nonce bit {bit} still decrypts the group image"), json!({"bit": bit}));
                    }
                }
                for bit in 0..256 {
                    let mut kk = *up.image_key;
                    kk[bit / 8] ^= 1 << (bit % 8);
                    rep.case(&format!("group-image|flip-key|{bit}"));
                    if decrypt_group_image(&enc, Some(&up.encrypted_hash), &Secret::new(kk), &up.image_nonce).is_ok() {
                        rep.finding("C17|group-image-wrong-seed-accepted".into(), format!("flipping seed bit {bit} still decrypts the group image"), json!({"bit": bit}));
                    }
                }
            }
            Err(e) => rep.finding("C17|group-image-prepare-fails".into(), format!("a valid 4x4 PNG is refused: {e:?}"), json!({})),
        }
        // v1: the published key is the ChaCha20-Poly1305 key itself
        {
            use chacha20poly1305::aead::{Aead, KeyInit};
            let key = [0x21u8; 32];
            let nonce = [0x22u8; 12];
            let cipher = chacha20poly1305::ChaCha20Poly1305::new((&key).into());
            let enc = cipher.encrypt((&nonce).into(), img.as_slice()).expect("v1 encrypt");
            use sha2::Digest;
            let h: [u8; 32] = sha2::Sha256::digest(&enc).into();
            rep.case("group-image|v1|roundtrip");
            match decrypt_group_image(&enc, Some(&h), &Secret::new(key), &Secret::new(nonce)) {
                Ok(p) if p == img => {}
                Ok(_) => rep.finding("C17|group-image-v1-different-bytes".into(), "a v1 group image decrypts to different bytes".into(), json!({})),
                Err(e) => rep.finding("C17|group-image-v1-roundtrip-fails".into(), format!("a v1 group image does not decrypt: {e:?}"), json!({})),
            }
        }
    }

    // ---- B: the file outlives epochs, whenever the announcing message is processed ----------------------------------------------
    let max_k = if thorough { 6 } else { 3 };
    for k in 0..=max_k {
        let l = lab(backend);
        let data = payload(40);
        let up = with_mdk!(l.a, m => m.media_manager(l.gid.clone()).encrypt_for_upload(&data, "text/plain", "h.txt")).expect("encrypt");
        let tag = with_mdk!(l.a, m => m.media_manager(l.gid.clone()).create_imeta_tag(&up, "https://b.example/h"));
        let mut rumor = EventBuilder::new(Kind::Custom(9), "see attachment").tag(tag.clone()).build(l.a.pk());
        rumor.ensure_id();
        let announce: Event = with_mdk!(l.a, m => m.create_message(&l.gid, rumor)).expect("announce");
        let mut commits: Vec<Event> = Vec::new();
        for i in 0..k {
            let ev = with_mdk!(l.a, m => m.update_group_data(&l.gid, NostrGroupDataUpdate::new().name(format!("e{i}")))).expect("commit").evolution_event;
            with_mdk!(l.a, m => m.merge_pending_commit(&l.gid)).expect("merge");
            commits.push(ev);
        }
        // the sender itself, k epochs later
        let reference = with_mdk!(l.a, m => m.media_manager(l.gid.clone()).parse_imeta_tag(&tag)).expect("reference");
        rep.case(&format!("history|sender|{k}"));
        if dec(&l.a, &l.gid, &up.encrypted_data, &reference).map(|p| p == data).unwrap_or(false) == false {
            rep.finding(format!("C17|sender-cannot-decrypt-later"), format!("the sender cannot decrypt its own file {k} epochs later"), json!({"epochs_later": k, "backend": format!("{backend:?}")}));
        }
        // the sender again, after the echo of its announcing message came back k epochs later
        {
            let a2 = l.a.fork();
            let echo = result_kind(&a2.process(&announce));
            rep.case(&format!("history|sender-after-late-echo|{k}|{echo}"));
            if dec(&a2, &l.gid, &up.encrypted_data, &reference).map(|p| p == data).unwrap_or(false) == false {
                rep.finding("C17|sender-cannot-decrypt-after-its-own-late-echo".into(), format!("the sender processes the echo of its announcing message {k} epochs after sending it ({echo}) and can no longer decrypt its own file"), json!({"epochs_later": k, "echo": echo, "backend": format!("{backend:?}")}));
            }
        }
        // the other member: announcing message processed after p of the k commits
        for p in 0..=k {
            let b = l.b.fork();
            let mut announced = false;
            for (i, c) in commits.iter().enumerate() {
                if i == p {
                    announced = matches!(b.process(&announce), Ok(MessageProcessingResult::ApplicationMessage(_)));
                }
                let _ = b.process(c);
            }
            if p == k {
                announced = matches!(b.process(&announce), Ok(MessageProcessingResult::ApplicationMessage(_)));
            }
            rep.case(&format!("history|member|k={k}|p={p}|announced={announced}"));
            rep.outcome(&format!("history:k={k}:p={p}:announced={announced}"));
            if !announced {
                // outside the past-epoch window the announcing message itself is not readable: nothing to require
                continue;
            }
            match dec(&b, &l.gid, &up.encrypted_data, &reference) {
                Ok(pl) if pl == data => {}
                Ok(_) => rep.finding("C17|member-decrypts-different-bytes-later".into(), format!("k={k} p={p}: different bytes"), json!({"k": k, "p": p})),
                Err(e) => rep.finding(
                    format!("C17|member-cannot-decrypt-later|announcement-processed-after-{}-commits", if p == 0 { "0" } else { "some" }),
                    format!("a member that processed the announcing message after {p} of {k} later commits cannot decrypt the file: {e:?}"),
                    json!({"epochs_later": k, "announcement_after_commits": p, "backend": format!("{backend:?}")}),
                ),
            }
        }
        // a member of the file's epoch that is removed afterwards (and has processed its removal) keeps the file it was sent
        {
            let b = l.b.fork();
            let announced = matches!(b.process(&announce), Ok(MessageProcessingResult::ApplicationMessage(_)));
            for c in &commits {
                let _ = b.process(c);
            }
            let a2 = l.a.fork();
            if let Ok(r) = with_mdk!(a2, m => m.remove_members(&l.gid, &[b.pk()])) {
                let res = b.process(&r.evolution_event);
                let evicted = b.group_obs(&l.gid).map(|o| o.record_state != "active").unwrap_or(true);
                rep.case(&format!("history|removed-member|k={k}|announced={announced}|evicted={evicted}|{}", result_kind(&res)));
                if announced && evicted {
                    match dec(&b, &l.gid, &up.encrypted_data, &reference) {
                        Ok(pl) if pl == data => {}
                        Ok(_) => rep.finding("C17|removed-member-decrypts-different-bytes".into(), format!("k={k}: different bytes"), json!({"k": k})),
                        Err(e) => rep.finding(
                            "C17|member-of-the-files-epoch-cannot-decrypt-after-its-removal".into(),
                            format!("a member that received the file, followed {k} commits and was then removed cannot decrypt the file any more: {e:?}"),
                            json!({"epochs_later": k, "backend": format!("{backend:?}")}),
                        ),
                    }
                }
            }
        }
        // non-member never
        if dec(&l.n, &l.gid, &up.encrypted_data, &reference).is_ok() {
            rep.finding("C17|non-member-decrypts-later".into(), "non-member decrypts".into(), json!({"k": k}));
        }
    }
    rep.states += 1;
    rep.sample(json!({"tamper": "bit 13 of a 17-byte text/plain ciphertext", "expected": "Err"}));
    rep.sample(json!({"history": {"epochs_later": 3, "announcement_processed_after_commits": 2}, "expected": "same bytes"}));
}
