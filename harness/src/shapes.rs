//! E5 shapes: finite, fully enumerated input families (C15 wire formats, C17 tamper matrix).

use std::collections::BTreeSet;

use mdk_core::prelude::*;
use mdk_core::verif_hooks::{ext_decode, ext_encode};
use nostr::{Event, EventBuilder, Keys, Kind, PublicKey, RelayUrl, Tag, TagKind, UnsignedEvent};
use serde_json::json;

use crate::lab::*;
use crate::report::Report;
use crate::with_mdk;

// ---------------------------------------------------------------------------------------
// raw TLS encoding of the group-data extension (bound to the code by an equality check)
// ---------------------------------------------------------------------------------------

fn vlen(n: usize, out: &mut Vec<u8>) {
    if n < 64 {
        out.push(n as u8);
    } else if n < 16384 {
        out.push(0x40 | ((n >> 8) as u8));
        out.push((n & 0xff) as u8);
    } else {
        out.push(0x80 | ((n >> 24) as u8));
        out.push(((n >> 16) & 0xff) as u8);
        out.push(((n >> 8) & 0xff) as u8);
        out.push((n & 0xff) as u8);
    }
}

#[derive(Clone, Debug)]
pub struct RawExt {
    pub version: u16,
    pub nostr_group_id: [u8; 32],
    pub name: Vec<u8>,
    pub description: Vec<u8>,
    pub admins: Vec<[u8; 32]>,
    pub relays: Vec<Vec<u8>>,
    pub image_hash: Vec<u8>,
    pub image_key: Vec<u8>,
    pub image_nonce: Vec<u8>,
    pub image_upload_key: Vec<u8>,
}

impl RawExt {
    pub fn encode(&self) -> Vec<u8> {
        let mut o = Vec::new();
        o.extend_from_slice(&self.version.to_be_bytes());
        o.extend_from_slice(&self.nostr_group_id);
        for f in [&self.name, &self.description] {
            vlen(f.len(), &mut o);
            o.extend_from_slice(f);
        }
        vlen(self.admins.len() * 32, &mut o);
        for a in &self.admins {
            o.extend_from_slice(a);
        }
        let mut rel = Vec::new();
        for r in &self.relays {
            vlen(r.len(), &mut rel);
            rel.extend_from_slice(r);
        }
        vlen(rel.len(), &mut o);
        o.extend_from_slice(&rel);
        for f in [&self.image_hash, &self.image_key, &self.image_nonce, &self.image_upload_key] {
            vlen(f.len(), &mut o);
            o.extend_from_slice(f);
        }
        o
    }
    pub fn of(e: &NostrGroupDataExtension) -> RawExt {
        RawExt {
            version: e.version,
            nostr_group_id: e.nostr_group_id,
            name: e.name.as_bytes().to_vec(),
            description: e.description.as_bytes().to_vec(),
            admins: e.admins.iter().map(|p| p.to_bytes()).collect(),
            relays: e.relays.iter().map(|r| r.to_string().into_bytes()).collect(),
            image_hash: e.image_hash.map(|h| h.to_vec()).unwrap_or_default(),
            image_key: e.image_key.map(|h| h.to_vec()).unwrap_or_default(),
            image_nonce: e.image_nonce.map(|h| h.to_vec()).unwrap_or_default(),
            image_upload_key: e.image_upload_key.map(|h| h.to_vec()).unwrap_or_default(),
        }
    }
}

fn strings() -> Vec<String> {
    vec![String::new(), "plain ascii".into(), "caf\u{e9}".into(), "\u{20ac}uro".into(), "\u{1F600} emoji".into(), "nul\u{0}inside".into(), "x".repeat(255)]
}

/// Invalid encodings of a group-data extension derived from a valid one: every k-th prefix, trailing bytes, every
/// fixed-length field one short and one long (and 1 / 5 bytes), version 0, invalid UTF-8, bad relay strings.
/// Used by C06 to put them inside a commit of a hostile admin.
pub fn hostile_group_data(base: &NostrGroupDataExtension, step: usize) -> Vec<(String, Vec<u8>)> {
    let raw = RawExt::of(base);
    let good = raw.encode();
    let mut out: Vec<(String, Vec<u8>)> = Vec::new();
    let mut k = 0;
    while k < good.len() {
        out.push((format!("truncated-at-{k}"), good[..k].to_vec()));
        k += step.max(1);
    }
    let mut b = good.clone();
    b.push(0);
    out.push(("trailing-byte".into(), b));
    for (field, full) in [("image_hash", 32usize), ("image_key", 32), ("image_nonce", 12), ("image_upload_key", 32)] {
        for len in [1usize, 5, full - 1, full + 1] {
            let mut r = raw.clone();
            let v = vec![1u8; len];
            match field {
                "image_hash" => r.image_hash = v,
                "image_key" => r.image_key = v,
                "image_nonce" => r.image_nonce = v,
                _ => r.image_upload_key = v,
            }
            out.push((format!("{field}-{len}-bytes"), r.encode()));
        }
    }
    let mut r = raw.clone();
    r.version = 0;
    out.push(("version-0".into(), r.encode()));
    let mut r = raw.clone();
    r.name = vec![0xff, 0xfe];
    out.push(("name-invalid-utf8".into(), r.encode()));
    if !raw.relays.is_empty() {
        let mut r = raw.clone();
        r.relays[0] = b"not a url".to_vec();
        out.push(("relay-not-a-url".into(), r.encode()));
    }
    out
}

pub fn check_c15(rep: &mut Report, thorough: bool) {
    let keys: Vec<Keys> = (0..3).map(|_| Keys::generate()).collect();
    let admins_sets: Vec<Vec<PublicKey>> = (0..=3).map(|n| keys.iter().take(n).map(|k| k.public_key()).collect()).collect();
    let relay_sets: Vec<Vec<RelayUrl>> = vec![vec![], vec![relay("wss://a.example")], vec![relay("wss://a.example"), relay("wss://b.example/path")], vec![relay("wss://UPPER.example:443/")]];
    let versions: Vec<u16> = vec![1, 2, 3, 65535];
    let mut n_ext = 0u64;
    // ---- (a) group-data extension: every value of the domain round-trips --------------------------------
    for name in strings() {
        for desc in strings() {
            for admins in &admins_sets {
                for relays in &relay_sets {
                    for pattern in 0..16u8 {
                        for v in &versions {
                            if !thorough && (pattern % 5 != 0) && name.len() > 20 {
                                continue;
                            }
                            let mut e = NostrGroupDataExtension::new(name.clone(), desc.clone(), admins.clone(), relays.clone(), if pattern & 1 != 0 { Some([1; 32]) } else { None }, if pattern & 2 != 0 { Some([2; 32]) } else { None }, if pattern & 4 != 0 { Some([3; 12]) } else { None }, if pattern & 8 != 0 { Some([4; 32]) } else { None });
                            e.version = *v;
                            e.nostr_group_id = [0x33; 32];
                            n_ext += 1;
                            rep.evaluations += 1;
                            rep.distinct.insert(h64(&format!("ext|{}|{}|{}|{}|{pattern}|{v}", name.len(), desc.len(), admins.len(), relays.len())));
                            let bytes = match ext_encode(&e) {
                                Ok(b) => b,
                                Err(err) => {
                                    rep.finding("C15|extension-encode-fails".into(), format!("cannot encode a valid extension value: {err:?}"), json!({"name": name, "version": v}));
                                    continue;
                                }
                            };
                            // the harness's raw encoder must agree with the code's (binds the mutation machinery to the code)
                            if RawExt::of(&e).encode() != bytes {
                                rep.machinery_errors.push("raw extension encoder disagrees with ext_encode".into());
                                return;
                            }
                            match ext_decode(&bytes) {
                                Ok(d) if d == e => {}
                                Ok(d) => rep.finding(
                                    format!("C15|extension-roundtrip-differs|{}", diff_ext(&e, &d)),
                                    format!("decode(encode(v)) != v in {}", diff_ext(&e, &d)),
                                    json!({"engine": "shapes", "value": crate::lab::ext_json(&e), "decoded": crate::lab::ext_json(&d)}),
                                ),
                                Err(err) => rep.finding("C15|extension-roundtrip-refused".into(), format!("decode(encode(v)) is refused: {err:?}"), json!({"engine": "shapes", "value": crate::lab::ext_json(&e)})),
                            }
                        }
                    }
                }
            }
        }
    }
    rep.add_count("extension_values", n_ext);

    // ---- strictness of the extension parser -----------------------------------------------------------------
    let base = {
        let mut e = NostrGroupDataExtension::new("name", "desc", admins_sets[2].clone(), relay_sets[2].clone(), Some([1; 32]), Some([2; 32]), Some([3; 12]), Some([4; 32]));
        e.nostr_group_id = [0x33; 32];
        e
    };
    let raw = RawExt::of(&base);
    let good = raw.encode();
    let mut must_fail: Vec<(String, Vec<u8>)> = Vec::new();
    for k in 0..good.len() {
        must_fail.push((format!("truncate"), good[..k].to_vec()));
    }
    for suffix in [vec![0u8], vec![0xff], vec![0, 0], vec![1, 2]] {
        let mut b = good.clone();
        b.extend_from_slice(&suffix);
        must_fail.push(("trailing-bytes".into(), b));
    }
    // ... and the strictness rules hold under every format version the parser accepts (1, 2, future ones)
    for v in [1u16, 3, 255, 65535] {
        let mut rv = raw.clone();
        rv.version = v;
        let gv = rv.encode();
        for suffix in [vec![0u8], vec![0xff], vec![0, 0, 0, 0]] {
            let mut b = gv.clone();
            b.extend_from_slice(&suffix);
            must_fail.push((format!("trailing-bytes-version-{v}"), b));
        }
        let mut r2 = rv.clone();
        r2.image_key = vec![1; 31];
        must_fail.push((format!("image_key-31-version-{v}"), r2.encode()));
        let mut r2 = rv.clone();
        r2.image_nonce = vec![1; 13];
        must_fail.push((format!("image_nonce-13-version-{v}"), r2.encode()));
        for k in (0..gv.len()).step_by(7) {
            must_fail.push((format!("truncate-version-{v}"), gv[..k].to_vec()));
        }
    }
    for (label, f) in [
        ("image_hash-31", Box::new(|r: &mut RawExt| r.image_hash = vec![1; 31]) as Box<dyn Fn(&mut RawExt)>),
        ("image_hash-33", Box::new(|r: &mut RawExt| r.image_hash = vec![1; 33])),
        ("image_key-31", Box::new(|r: &mut RawExt| r.image_key = vec![1; 31])),
        ("image_key-33", Box::new(|r: &mut RawExt| r.image_key = vec![1; 33])),
        ("image_nonce-11", Box::new(|r: &mut RawExt| r.image_nonce = vec![1; 11])),
        ("image_nonce-13", Box::new(|r: &mut RawExt| r.image_nonce = vec![1; 13])),
        ("image_upload_key-31", Box::new(|r: &mut RawExt| r.image_upload_key = vec![1; 31])),
        ("image_upload_key-33", Box::new(|r: &mut RawExt| r.image_upload_key = vec![1; 33])),
        ("version-0", Box::new(|r: &mut RawExt| r.version = 0)),
        ("name-invalid-utf8", Box::new(|r: &mut RawExt| r.name = vec![0xff, 0xfe])),
        ("description-invalid-utf8", Box::new(|r: &mut RawExt| r.description = vec![0xc3, 0x28])),
        ("relay-invalid-utf8", Box::new(|r: &mut RawExt| r.relays[0] = vec![0xff])),
        ("relay-not-a-url", Box::new(|r: &mut RawExt| r.relays[0] = b"not a url".to_vec())),
        ("relay-http-scheme", Box::new(|r: &mut RawExt| r.relays[0] = b"http://a.example".to_vec())),
    ] {
        let mut r2 = raw.clone();
        f(&mut r2);
        must_fail.push((label.to_string(), r2.encode()));
    }
    // admin list whose byte length is not a multiple of 32 (length prefix +-1)
    {
        let mut b = Vec::new();
        b.extend_from_slice(&raw.version.to_be_bytes());
        b.extend_from_slice(&raw.nostr_group_id);
        vlen(raw.name.len(), &mut b);
        b.extend_from_slice(&raw.name);
        vlen(raw.description.len(), &mut b);
        b.extend_from_slice(&raw.description);
        vlen(33, &mut b);
        b.extend_from_slice(&[7u8; 33]);
        vlen(0, &mut b);
        for _ in 0..4 {
            vlen(0, &mut b);
        }
        must_fail.push(("admin-list-33-bytes".into(), b));
    }
    for (label, bytes) in &must_fail {
        rep.evaluations += 1;
        rep.distinct.insert(h64(&format!("strict|{label}|{}", bytes.len())));
        let r = std::panic::catch_unwind(|| ext_decode(bytes));
        match r {
            Err(_) => rep.finding(format!("C15|extension-parser-panics|{label}"), format!("ext_decode panics on {label}"), json!({"engine": "shapes", "bytes": hx(bytes)})),
            Ok(Ok(d)) => rep.finding(format!("C15|extension-parser-accepts|{label}"), format!("the extension parser accepts a {label} encoding (as {:?})", d.name), json!({"engine": "shapes", "mutation": label, "bytes": hx(bytes)})),
            Ok(Err(_)) => {}
        }
    }
    rep.add_count("extension_strictness_cases", must_fail.len() as u64);

    // ---- (b) key-package events --------------------------------------------------------------------------------
    let alice = Client::new("kp-alice", Bk::Memory, &Cfg::default());
    let bob = Client::new("kp-bob", Bk::Memory, &Cfg::default());
    let parser = Client::new("kp-parser", Bk::Memory, &Cfg::default());
    let ev = alice.key_package_event();
    let other = bob.key_package_event();
    match with_mdk!(parser, m => m.parse_key_package(&ev)) {
        Ok(kp) => {
            use tls_codec::Serialize as _;
            use nostr::base64::Engine;
            let ser = kp.tls_serialize_detached().unwrap_or_default();
            let content = nostr::base64::engine::general_purpose::STANDARD.decode(&ev.content).unwrap_or_default();
            if ser != content {
                rep.finding("C15|key-package-roundtrip-differs".into(), "re-serialising the parsed key package does not give the published bytes".into(), json!({"engine": "shapes"}));
            }
        }
        Err(e) => rep.finding("C15|key-package-roundtrip-refused".into(), format!("a key-package event made by MDK is refused by MDK: {e:?}"), json!({"engine": "shapes"})),
    }
    let rebuild = |tags: Vec<Tag>, content: &str, kind: Kind, signer: &Keys| -> Event { EventBuilder::new(kind, content).tags(tags).sign_with_keys(signer).unwrap() };
    let tags0: Vec<Tag> = ev.tags.iter().cloned().collect();
    let mut kp_mut: Vec<(String, Event)> = Vec::new();
    let names = ["mls_protocol_version", "mls_ciphersuite", "mls_extensions", "relays", "i", "encoding"];
    for n in names {
        let t: Vec<Tag> = tags0.iter().filter(|t| t.as_slice()[0] != n).cloned().collect();
        kp_mut.push((format!("missing-{n}-tag"), rebuild(t, &ev.content, ev.kind, &alice.keys)));
    }
    let replace = |name: &str, vals: Vec<&str>| -> Vec<Tag> { tags0.iter().map(|t| if t.as_slice()[0] == name { Tag::parse(std::iter::once(name.to_string()).chain(vals.iter().map(|s| s.to_string()))).unwrap() } else { t.clone() }).collect() };
    let real_i: String = ev.tags.iter().find(|t| t.as_slice()[0] == "i").map(|t| t.as_slice()[1].clone()).unwrap_or_default();
    let other_i = other.tags.iter().find(|t| t.as_slice()[0] == "i").map(|t| t.as_slice()[1].clone()).unwrap_or_default();
    for (label, tags) in [
        ("protocol-version-2.0", replace("mls_protocol_version", vec!["2.0"])),
        ("ciphersuite-0x0002", replace("mls_ciphersuite", vec!["0x0002"])),
        ("ciphersuite-not-hex", replace("mls_ciphersuite", vec!["0xZZZZ"])),
        ("extensions-without-nostr-group-data", replace("mls_extensions", vec!["0x000a"])),
        ("extensions-empty", replace("mls_extensions", vec![])),
        ("relays-invalid-url", replace("relays", vec!["not a url"])),
        ("relays-empty", replace("relays", vec![])),
        ("i-of-another-package", replace("i", vec![other_i.as_str()])),
        ("i-empty", replace("i", vec![""])),
        ("i-not-hex", replace("i", vec!["zz"])),
        ("i-two-values", replace("i", vec![other_i.as_str(), other_i.as_str()])),
        ("i-one-byte-prefix-of-real-ref", replace("i", vec![&real_i[..2]])),
        ("i-half-prefix-of-real-ref", replace("i", vec![&real_i[..real_i.len() / 2]])),
        ("i-real-ref-plus-extra-byte", replace("i", vec![format!("{real_i}00").as_str()])),
        ("encoding-hex", replace("encoding", vec!["hex"])),
    ] {
        kp_mut.push((label.to_string(), rebuild(tags, &ev.content, ev.kind, &alice.keys)));
    }
    // other spellings of the one accepted value of each tag: numerically equal, padded, signed, cased, spaced
    let val_of = |name: &str| -> String { tags0.iter().find(|t| t.as_slice()[0] == name).and_then(|t| t.as_slice().get(1).cloned()).unwrap_or_default() };
    for sp in ["1.00", "01.0", "+1.0", "1.+0", "1.0.0", " 1.0", "1.0 ", "1", "1.", "1,0", "v1.0", "1.0\n", "１.０"] {
        kp_mut.push((format!("protocol-version-spelled-{}", sp.escape_default()), rebuild(replace("mls_protocol_version", vec![sp]), &ev.content, ev.kind, &alice.keys)));
    }
    {
        let cs = val_of("mls_ciphersuite");
        // (hex digits and the encoding name are compared case-insensitively by design)
        let variants: Vec<String> = vec![cs.replace("0x", ""), format!(" {cs}"), format!("{cs} "), cs.replace("0x", "0x0"), format!("+{cs}"), "1".into()];
        for sp in variants.into_iter().filter(|v| *v != cs) {
            kp_mut.push((format!("ciphersuite-spelled-{}", sp.escape_default()), rebuild(replace("mls_ciphersuite", vec![sp.as_str()]), &ev.content, ev.kind, &alice.keys)));
        }
        let enc = val_of("encoding");
        for sp in [format!(" {enc}"), format!("{enc} "), format!("{enc}url")].into_iter().filter(|v| *v != enc) {
            kp_mut.push((format!("encoding-spelled-{}", sp.escape_default()), rebuild(replace("encoding", vec![sp.as_str()]), &ev.content, ev.kind, &alice.keys)));
        }
    }
    {
        use nostr::base64::Engine;
        let b64 = nostr::base64::engine::general_purpose::STANDARD;
        let raw = b64.decode(&ev.content).unwrap_or_default();
        for (label, extra) in [("trailing-byte-after-key-package", vec![0u8]), ("trailing-bytes-after-key-package", vec![1, 2, 3])] {
            let mut r = raw.clone();
            r.extend_from_slice(&extra);
            kp_mut.push((label.to_string(), rebuild(tags0.clone(), &b64.encode(&r), ev.kind, &alice.keys)));
        }
        kp_mut.push(("content-not-base64".into(), rebuild(tags0.clone(), "!!!not base64!!!", ev.kind, &alice.keys)));
        kp_mut.push(("content-hex-instead-of-base64".into(), rebuild(tags0.clone(), &hex::encode(&raw), ev.kind, &alice.keys)));
        kp_mut.push(("content-truncated".into(), rebuild(tags0.clone(), &b64.encode(&raw[..raw.len() / 2]), ev.kind, &alice.keys)));
        kp_mut.push(("content-empty".into(), rebuild(tags0.clone(), "", ev.kind, &alice.keys)));
    }
    kp_mut.push(("credential-of-another-identity".into(), rebuild(tags0.clone(), &ev.content, ev.kind, &bob.keys)));
    kp_mut.push(("wrong-kind".into(), rebuild(tags0.clone(), &ev.content, Kind::TextNote, &alice.keys)));
    kp_mut.push(("kind-welcome".into(), rebuild(tags0.clone(), &ev.content, Kind::MlsWelcome, &alice.keys)));
    for (label, e) in &kp_mut {
        rep.evaluations += 1;
        rep.distinct.insert(h64(&format!("kp|{label}")));
        let r = std::panic::catch_unwind(std::panic::AssertUnwindSafe(|| with_mdk!(parser, m => m.parse_key_package(e))));
        match r {
            Err(_) => rep.finding(format!("C15|key-package-parser-panics|{label}"), format!("parse_key_package panics on {label}"), json!({"engine": "shapes", "mutation": label})),
            Ok(Ok(_)) => rep.finding(format!("C15|key-package-parser-accepts|{label}"), format!("parse_key_package accepts a key-package event with {label}"), json!({"engine": "shapes", "mutation": label, "event": e})),
            Ok(Err(_)) => {}
        }
    }
    rep.add_count("key_package_mutations", kp_mut.len() as u64);

    // ---- (c) welcome rumors -----------------------------------------------------------------------------------------
    let admin = Client::new("w-admin", Bk::Memory, &Cfg::default());
    let cfgd = NostrGroupConfigData::new("g".into(), "d".into(), None, None, None, vec![relay("wss://w.example")], vec![admin.pk()]);
    let joiner0 = Client::new("w-joiner", Bk::Memory, &Cfg::default());
    let jkp = joiner0.key_package_event();
    let res = with_mdk!(admin, m => m.create_group(&admin.pk(), vec![jkp.clone()], cfgd)).expect("group");
    let rumor: UnsignedEvent = res.welcome_rumors[0].clone();
    let wid = |s: &str| nostr::EventId::from_slice(&crate::scenario::sha2_32(s.as_bytes())).unwrap();
    {
        let j = joiner0.fork();
        match with_mdk!(j, m => m.process_welcome(&wid("ok"), &rumor)) {
            Ok(w) => {
                if w.mls_group_id != res.group.mls_group_id || w.nostr_group_id != res.group.nostr_group_id || w.group_name != res.group.name || w.welcomer != admin.pk() {
                    rep.finding("C15|welcome-roundtrip-differs".into(), "the welcome parsed by the joiner does not describe the group the inviter created".into(), json!({"engine": "shapes"}));
                }
            }
            Err(e) => rep.finding("C15|welcome-roundtrip-refused".into(), format!("a welcome made by MDK is refused by MDK: {e:?}"), json!({"engine": "shapes"})),
        }
    }
    let wtags: Vec<Tag> = rumor.tags.iter().cloned().collect();
    let mk_rumor = |tags: Vec<Tag>, content: &str, kind: Kind| -> UnsignedEvent {
        let mut r = EventBuilder::new(kind, content).tags(tags).build(admin.pk());
        r.ensure_id();
        r
    };
    let mut wm: Vec<(String, UnsignedEvent)> = Vec::new();
    for n in ["relays", "e", "encoding"] {
        let t: Vec<Tag> = wtags.iter().filter(|t| t.as_slice()[0] != n).cloned().collect();
        wm.push((format!("missing-{n}-tag"), mk_rumor(t, &rumor.content, rumor.kind)));
    }
    let wreplace = |name: &str, vals: Vec<&str>| -> Vec<Tag> { wtags.iter().map(|t| if t.as_slice()[0] == name { Tag::parse(std::iter::once(name.to_string()).chain(vals.iter().map(|s| s.to_string()))).unwrap() } else { t.clone() }).collect() };
    wm.push(("encoding-hex".into(), mk_rumor(wreplace("encoding", vec!["hex"]), &rumor.content, rumor.kind)));
    // ambiguous encoding declarations: a second encoding tag with another value (either order), other spellings, extra values
    {
        let enc = |v: &str| Tag::parse(["encoding".to_string(), v.to_string()]).unwrap();
        let without: Vec<Tag> = wtags.iter().filter(|t| t.as_slice()[0] != "encoding").cloned().collect();
        for (label, encs) in [
            ("encoding-hex-then-base64", vec![enc("hex"), enc("base64")]),
            ("encoding-base64-then-hex", vec![enc("base64"), enc("hex")]),
            ("encoding-uppercase", vec![enc("BASE64")]),
            ("encoding-mixed-case", vec![enc("Base64")]),
            ("encoding-padded", vec![enc(" base64")]),
            ("encoding-base64url", vec![enc("base64url")]),
            ("encoding-empty", vec![enc("")]),
        ] {
            let mut t = without.clone();
            t.extend(encs);
            wm.push((label.to_string(), mk_rumor(t, &rumor.content, rumor.kind)));
        }
    }
    wm.push(("relays-invalid-url".into(), mk_rumor(wreplace("relays", vec!["not a url"]), &rumor.content, rumor.kind)));
    wm.push(("e-empty".into(), mk_rumor(wreplace("e", vec![""]), &rumor.content, rumor.kind)));
    wm.push(("wrong-kind".into(), mk_rumor(wtags.clone(), &rumor.content, Kind::MlsGroupMessage)));
    {
        use nostr::base64::Engine;
        let b64 = nostr::base64::engine::general_purpose::STANDARD;
        let raw = b64.decode(&rumor.content).unwrap_or_default();
        for (label, extra) in [("trailing-byte-after-welcome", vec![0u8]), ("trailing-bytes-after-welcome", vec![9, 9, 9])] {
            let mut r = raw.clone();
            r.extend_from_slice(&extra);
            wm.push((label.to_string(), mk_rumor(wtags.clone(), &b64.encode(&r), rumor.kind)));
        }
        wm.push(("content-not-base64".into(), mk_rumor(wtags.clone(), "%%%", rumor.kind)));
        wm.push(("content-truncated".into(), mk_rumor(wtags.clone(), &b64.encode(&raw[..raw.len() - 7]), rumor.kind)));
        wm.push(("content-is-a-key-package".into(), mk_rumor(wtags.clone(), &jkp.content, rumor.kind)));
    }
    for (label, r) in &wm {
        rep.evaluations += 1;
        rep.distinct.insert(h64(&format!("welcome|{label}")));
        let j = joiner0.fork();
        let out = std::panic::catch_unwind(std::panic::AssertUnwindSafe(|| with_mdk!(j, m => m.process_welcome(&wid(label), r))));
        match out {
            Err(_) => rep.finding(format!("C15|welcome-parser-panics|{label}"), format!("process_welcome panics on {label}"), json!({"engine": "shapes", "mutation": label})),
            Ok(Ok(_)) => rep.finding(format!("C15|welcome-parser-accepts|{label}"), format!("process_welcome accepts a welcome rumor with {label}"), json!({"engine": "shapes", "mutation": label})),
            Ok(Err(_)) => {}
        }
    }
    rep.add_count("welcome_mutations", wm.len() as u64);
    // the same mutations offered from non-initial states of the joiner: the valid welcome already parsed (pending), and already
    // accepted; each under a fresh wrapper id and under the wrapper id the valid welcome came in. The structural refusal does not
    // depend on what the joiner has seen before (seeded change C15-9: the check is skipped for a known wrapper id).
    {
        let pending = joiner0.fork();
        let parsed = with_mdk!(pending, m => m.process_welcome(&wid("ok"), &rumor));
        let mut states: Vec<(&str, Client)> = Vec::new();
        if let Ok(w) = parsed {
            let accepted = pending.fork();
            if with_mdk!(accepted, m => m.accept_welcome(&w)).is_ok() {
                states.push(("accepted", accepted));
            }
            states.insert(0, ("pending", pending));
        }
        let mut n = 0u64;
        for (st, cl) in &states {
            for (label, r) in &wm {
                for (wl, w) in [("fresh-wrapper", wid(label)), ("known-wrapper", wid("ok"))] {
                    rep.evaluations += 1;
                    n += 1;
                    rep.distinct.insert(h64(&format!("welcome|{label}|{st}|{wl}")));
                    let j = cl.fork();
                    let out = std::panic::catch_unwind(std::panic::AssertUnwindSafe(|| with_mdk!(j, m => m.process_welcome(&w, r))));
                    match out {
                        Err(_) => rep.finding(format!("C15|welcome-parser-panics|{label}|{st}|{wl}"), format!("process_welcome panics on {label} ({st} joiner, {wl})"), json!({"engine": "shapes", "mutation": label, "state": st, "wrapper": wl})),
                        // under the wrapper id the valid welcome came in, the library may answer from its record without parsing what it
                        // was handed (the unchanged tree does so for every content mutation): nothing is accepted then, provided the
                        // answer is that record and not something read from the mutated rumor
                        Ok(Ok(got)) if wl == "known-wrapper" => {
                            let same = got.mls_group_id == res.group.mls_group_id && got.nostr_group_id == res.group.nostr_group_id && got.group_name == res.group.name && got.welcomer == admin.pk() && got.id == rumor.id.unwrap_or(got.id) && got.wrapper_event_id == w;
                            if !same {
                                rep.finding(format!("C15|welcome-parser-accepts|{label}|{st}|{wl}|answer-differs-from-the-record"), format!("process_welcome, handed a rumor with {label} under the wrapper id of the {st} valid welcome, answers with a welcome that is not the recorded one"), json!({"engine": "shapes", "mutation": label, "state": st, "wrapper": wl}));
                            }
                        }
                        Ok(Ok(_)) => rep.finding(format!("C15|welcome-parser-accepts|{label}|{st}|{wl}"), format!("process_welcome accepts a welcome rumor with {label} from a joiner whose valid welcome is {st}, under a {wl} id"), json!({"engine": "shapes", "mutation": label, "state": st, "wrapper": wl})),
                        Ok(Err(_)) => {}
                    }
                }
            }
        }
        rep.add_count("welcome_mutations_from_later_states", n);
    }

    // ---- (d) media tags ------------------------------------------------------------------------------------------------
    let gid = res.group.mls_group_id.clone();
    with_mdk!(admin, m => {
        let mm = m.media_manager(gid.clone());
        for (mime, name, data) in [
            ("text/plain", "a.txt", b"hello".to_vec()),
            ("application/pdf", "doc.pdf", vec![1u8; 100]),
            ("application/octet-stream", "x.bin", vec![]),
            // values with inner white space and non-ASCII characters survive the tag
            ("text/plain", "holiday notes 2024.txt", b"x".to_vec()),
            ("text/plain", "two  spaces.txt", b"x".to_vec()),
            ("image/png", "gr\u{00fc}\u{00df}e \u{1f600}.png", vec![7u8; 33]),
        ] {
            match mm.encrypt_for_upload(&data, mime, name) {
                Ok(up) => {
                    let tag = mm.create_imeta_tag(&up, "https://blossom.example/abc");
                    let want = mm.create_media_reference(&up, "https://blossom.example/abc".to_string());
                    rep.evaluations += 1;
                    rep.distinct.insert(h64(&format!("imeta|{mime}|{}", data.len())));
                    match mm.parse_imeta_tag(&tag) {
                        Ok(got) => {
                            if got.url != want.url || got.original_hash != want.original_hash || got.mime_type != want.mime_type || got.filename != want.filename || got.nonce != want.nonce || got.scheme_version != want.scheme_version || got.dimensions != want.dimensions {
                                rep.finding("C15|imeta-roundtrip-differs".into(), format!("parse_imeta_tag(create_imeta_tag(x)) != x for {mime}"), json!({"engine": "shapes", "mime": mime}));
                            }
                        }
                        Err(e) => rep.finding("C15|imeta-roundtrip-refused".into(), format!("an imeta tag made by MDK is refused: {e:?}"), json!({"engine": "shapes", "mime": mime})),
                    }
                    // mutations of the tag
                    let vals: Vec<String> = tag.clone().to_vec();
                    let mut muts: Vec<(String, Vec<String>)> = Vec::new();
                    for field in ["url", "m", "filename", "x", "n", "v"] {
                        muts.push((format!("missing-{field}"), vals.iter().filter(|v| !v.starts_with(&format!("{field} "))).cloned().collect()));
                    }
                    let rep_field = |field: &str, val: &str| -> Vec<String> { vals.iter().map(|v| if v.starts_with(&format!("{field} ")) { format!("{field} {val}") } else { v.clone() }).collect() };
                    muts.push(("x-short".into(), rep_field("x", "abcd")));
                    muts.push(("x-not-hex".into(), rep_field("x", &"zz".repeat(32))));
                    muts.push(("x-33-bytes".into(), rep_field("x", &"ab".repeat(33))));
                    muts.push(("n-11-bytes".into(), rep_field("n", &"ab".repeat(11))));
                    muts.push(("n-13-bytes".into(), rep_field("n", &"ab".repeat(13))));
                    muts.push(("v-unknown".into(), rep_field("v", "mip04-v9")));
                    muts.push(("v-empty".into(), rep_field("v", "")));
                    muts.push(("m-unsupported".into(), rep_field("m", "application/x-msdownload")));
                    muts.push(("filename-with-path".into(), rep_field("filename", "../../etc/passwd")));
                    for (label, v) in muts {
                        rep.evaluations += 1;
                        rep.distinct.insert(h64(&format!("imeta|{label}")));
                        let t = Tag::parse(v.clone());
                        let Ok(t) = t else { continue };
                        match std::panic::catch_unwind(std::panic::AssertUnwindSafe(|| mm.parse_imeta_tag(&t))) {
                            Err(_) => rep.finding(format!("C15|imeta-parser-panics|{label}"), format!("parse_imeta_tag panics on {label}"), json!({"engine": "shapes"})),
                            Ok(Ok(_)) => rep.finding(format!("C15|imeta-parser-accepts|{label}"), format!("parse_imeta_tag accepts a tag with {label}"), json!({"engine": "shapes", "tag": v})),
                            Ok(Err(_)) => {}
                        }
                    }
                }
                Err(e) => rep.outcome(&format!("encrypt-refused:{mime}:{e:?}")),
            }
        }
    });
    rep.sample(json!({"family": "extension", "value": {"name": "caf\u{e9}", "description": "", "admins": 2, "relays": 1, "image_pattern": 5, "version": 2}}));
    rep.sample(json!({"family": "key-package", "mutation": "trailing-byte-after-key-package"}));
}

fn diff_ext(a: &NostrGroupDataExtension, b: &NostrGroupDataExtension) -> String {
    let mut v = Vec::new();
    if a.version != b.version {
        v.push("version");
    }
    if a.name != b.name {
        v.push("name");
    }
    if a.description != b.description {
        v.push("description");
    }
    if a.admins != b.admins {
        v.push("admins");
    }
    if a.relays != b.relays {
        v.push("relays");
    }
    if a.image_hash != b.image_hash || a.image_key != b.image_key || a.image_nonce != b.image_nonce || a.image_upload_key != b.image_upload_key {
        v.push("image");
    }
    if a.nostr_group_id != b.nostr_group_id {
        v.push("nostr_group_id");
    }
    v.join("+")
}

pub fn _unused(_: BTreeSet<u8>) {}
