//! C19: storage backends shared between threads. Every program set (2..3 threads, 1..3 single storage
//! calls each, from small colliding alphabets) is run under the controlled scheduler for every
//! schedule; the observed call results and the state afterwards must be those of some sequential
//! order of the calls that respects program order and real-time order.

use std::collections::{BTreeMap, BTreeSet};
use std::sync::Mutex;

use mdk_memory_storage::MdkMemoryStorage;
use mdk_sqlite_storage::MdkSqliteStorage;
use mdk_storage_traits::groups::types::GroupExporterSecret;
use mdk_storage_traits::groups::GroupStorage;
use mdk_storage_traits::messages::MessageStorage;
use mdk_storage_traits::welcomes::WelcomeStorage;
use mdk_storage_traits::{MdkStorageProvider, Secret};
use openmls_traits::storage::StorageProvider;
use serde::{Deserialize, Serialize};
use serde_json::json;

use crate::lab::{h64, hx};
use crate::report::Report;
use crate::sched;
use crate::storex::{self, Blob, Pools};

#[derive(Debug, Clone, PartialEq, Eq, Serialize, Deserialize, Hash, PartialOrd, Ord)]
pub enum COp {
    SaveGroup { g: u8, name: u8, epoch: u8 },
    Relays { g: u8, set: u8 },
    Secret { g: u8, epoch: u8, val: u8 },
    Msg { g: u8, id: u8, state: u8 },
    /// a new message whose created_at grows with its id (no ties: which message a full group evicts is then defined)
    MsgAged { g: u8, id: u8 },
    InvMsgs { g: u8, epoch: u8 },
    Proc { w: u8, state: u8 },
    SnapCreate { g: u8, name: u8 },
    SnapRollback { g: u8, name: u8 },
    SnapRelease { g: u8, name: u8 },
    MlsState { g: u8, val: u8 },
    MlsLeaf { g: u8, val: u8 },
    RGroup { g: u8 },
    RAll,
    RRelays { g: u8 },
    RSecret { g: u8, epoch: u8 },
    RMsgs { g: u8 },
    RMsg { g: u8, id: u8 },
    RSnaps { g: u8 },
    RMlsState { g: u8 },
    RLeaves { g: u8 },
    Welcome { id: u8, state: u8 },
    ProcWelcome { w: u8, failed: bool },
    Retry { w: u8 },
    InvProc { g: u8, epoch: u8 },
    SnapPrune { all: bool },
    RWelcome { id: u8 },
    RPendingWelcomes,
    RProc { w: u8 },
    RFailedForRetry { g: u8 },
    RByNostr { n: u8 },
}

impl COp {
    /// the group an operation names (None: operations that name no group or every group)
    pub fn group(&self) -> Option<u8> {
        let s = format!("{self:?}");
        let i = s.find("g: ")?;
        s[i + 3..].chars().take_while(|c| c.is_ascii_digit()).collect::<String>().parse().ok()
    }
    pub fn class(&self) -> String {
        let s = format!("{self:?}");
        s.split([' ', '{']).next().unwrap_or("").to_string()
    }
}

pub fn capply<S: MdkStorageProvider>(s: &S, op: &COp) -> String {
    use storex::{gid, group_s, list_s, mk_group, mk_msg, mk_proc, msg_s, omls_gid, r, relay_set, set_s};
    match op {
        COp::SaveGroup { g, name, epoch } => r(s.save_group(mk_group(*g, *g, *name, *epoch, true)), |_| "ok".into()),
        COp::Relays { g, set } => r(s.replace_group_relays(&gid(*g), relay_set(*set)), |_| "ok".into()),
        COp::Secret { g, epoch, val } => r(s.save_group_exporter_secret(GroupExporterSecret { mls_group_id: gid(*g), epoch: *epoch as u64, secret: Secret::new([*val; 32]) }), |_| "ok".into()),
        COp::Msg { g, id, state } => r(s.save_message(mk_msg(*g, *id, 0, 0, Some(1), *state, 0)), |_| "ok".into()),
        COp::MsgAged { g, id } => {
            let mut m = mk_msg(*g, *id, 0, 0, Some(1), 0, 0);
            m.created_at = nostr::Timestamp::from_secs(m.created_at.as_secs() + *id as u64);
            m.event.created_at = m.created_at;
            r(s.save_message(m), |_| "ok".into())
        }
        COp::InvMsgs { g, epoch } => r(s.invalidate_messages_after_epoch(&gid(*g), *epoch as u64), |v| set_s(v.iter().map(|i| i.to_hex()[60..].to_string()).collect())),
        COp::Proc { w, state } => r(s.save_processed_message(mk_proc(*w, Some(0), Some(1), *state)), |_| "ok".into()),
        COp::SnapCreate { g, name } => r(s.create_group_snapshot(&gid(*g), &format!("snap{name}")), |_| "ok".into()),
        COp::SnapRollback { g, name } => r(s.rollback_group_to_snapshot(&gid(*g), &format!("snap{name}")), |_| "ok".into()),
        COp::SnapRelease { g, name } => r(s.release_group_snapshot(&gid(*g), &format!("snap{name}")), |_| "ok".into()),
        COp::MlsState { g, val } => r(s.write_group_state(&omls_gid(*g), &Blob(vec![*val])), |_| "ok".into()),
        COp::MlsLeaf { g, val } => r(s.append_own_leaf_node(&omls_gid(*g), &Blob(vec![*val])), |_| "ok".into()),
        COp::RGroup { g } => r(s.find_group_by_mls_group_id(&gid(*g)), |g| g.map(|g| group_s(&g)).unwrap_or("none".into())),
        COp::RAll => r(s.all_groups(), |v| set_s(v.iter().map(group_s).collect())),
        COp::RRelays { g } => r(s.group_relays(&gid(*g)), |v| set_s(v.iter().map(|x| x.relay_url.to_string()).collect())),
        COp::RSecret { g, epoch } => r(s.get_group_exporter_secret(&gid(*g), *epoch as u64), |x| x.map(|x| hx(&x.secret.as_ref()[..1])).unwrap_or("none".into())),
        COp::RMsgs { g } => r(s.messages(&gid(*g), None), |v| list_s(v.iter().map(msg_s).collect())),
        COp::RMsg { g, id } => r(s.find_message_by_event_id(&gid(*g), &storex::eid(0x30, *id)), |x| x.map(|x| msg_s(&x)).unwrap_or("none".into())),
        COp::RSnaps { g } => r(s.list_group_snapshots(&gid(*g)), |v| set_s(v.into_iter().map(|x| x.0).collect())),
        COp::RMlsState { g } => r(s.group_state::<Blob, _>(&omls_gid(*g)), |x| format!("{x:?}")),
        COp::RLeaves { g } => r(s.own_leaf_nodes::<_, Blob>(&omls_gid(*g)), |v| list_s(v.iter().map(|x| format!("{x:?}")).collect())),
        COp::Welcome { id, state } => storex::apply(s, &storex::Op::Welcome { id: *id, state: *state }),
        COp::ProcWelcome { w, failed } => storex::apply(s, &storex::Op::ProcWelcome { w: *w, failed: *failed }),
        COp::Retry { w } => storex::apply(s, &storex::Op::Retry { w: *w }),
        COp::InvProc { g, epoch } => storex::apply(s, &storex::Op::InvProc { g: *g, epoch: *epoch }),
        COp::SnapPrune { all } => storex::apply(s, &storex::Op::SnapPrune { all: *all }),
        COp::RWelcome { id } => r(s.find_welcome_by_event_id(&storex::eid(0x50, *id)), |x| x.map(|x| format!("{}:{}", x.id.to_hex()[60..].to_string(), x.state.as_str())).unwrap_or("none".into())),
        COp::RPendingWelcomes => r(s.pending_welcomes(None), |v| list_s(v.iter().map(|x| x.id.to_hex()[60..].to_string()).collect())),
        COp::RProc { w } => r(s.find_processed_message_by_event_id(&storex::eid(0x40, *w)), |x| x.map(|x| storex::proc_s(&x)).unwrap_or("none".into())),
        COp::RFailedForRetry { g } => r(s.find_failed_messages_for_retry(&gid(*g)), |v| set_s(v.iter().map(|i| i.to_hex()[60..].to_string()).collect())),
        COp::RByNostr { n } => r(s.find_group_by_nostr_group_id(&[0x10 + *n; 32]), |g| g.map(|g| group_s(&g)).unwrap_or("none".into())),
    }
}

const POOLS: Pools = Pools { groups: 2, nostr: 2, msgs: 2, wrappers: 2, welcomes: 1 };

fn base_state<S: MdkStorageProvider>(s: &S) {
    for op in [
        COp::SaveGroup { g: 0, name: 0, epoch: 1 },
        COp::SaveGroup { g: 1, name: 0, epoch: 1 },
        COp::Relays { g: 0, set: 1 },
        COp::Relays { g: 1, set: 1 },
        COp::Secret { g: 0, epoch: 1, val: 1 },
        COp::Msg { g: 0, id: 0, state: 0 },
        COp::Proc { w: 1, state: 1 },
        COp::MlsState { g: 0, val: 1 },
        COp::MlsLeaf { g: 0, val: 1 },
        COp::MlsState { g: 1, val: 1 },
        COp::SnapCreate { g: 0, name: 0 },
    ] {
        let _ = capply(s, &op);
    }
}

/// what is compared: the state right after the threads, then a rollback to the snapshot the threads
/// may have taken (its content is only observable that way), then the state again
fn final_phase<S: MdkStorageProvider>(s: &S) -> Vec<(String, String)> {
    let mut out = storex::reads(s, &POOLS);
    out.push(("then rollback(0,snap1)".into(), capply(s, &COp::SnapRollback { g: 0, name: 1 })));
    for (k, v) in storex::reads(s, &POOLS) {
        out.push((format!("after-rollback:{k}"), v));
    }
    out
}

#[derive(Clone, PartialEq, Eq, Hash, PartialOrd, Ord)]
struct Outcome {
    results: Vec<Vec<String>>,
    fin: Vec<(String, String)>,
}

pub trait Backend: Send + Sync {
    type S: MdkStorageProvider + Send + Sync;
    fn name() -> &'static str;
    fn fresh(&self) -> &Self::S;
    fn reset(&mut self);
}

pub struct Mem(MdkMemoryStorage);
impl Backend for Mem {
    type S = MdkMemoryStorage;
    fn name() -> &'static str {
        "memory"
    }
    fn fresh(&self) -> &MdkMemoryStorage {
        &self.0
    }
    fn reset(&mut self) {
        self.0 = MdkMemoryStorage::with_cache_size(std::num::NonZeroUsize::new(64).unwrap());
        base_state(&self.0);
    }
}

/// the memory backend with a per-group message capacity of two (the base state holds one message): concurrent saves
/// must leave what some sequential order of them leaves, never more than the capacity
pub struct MemCap(MdkMemoryStorage);
impl Backend for MemCap {
    type S = MdkMemoryStorage;
    fn name() -> &'static str {
        "memory-capacity-2"
    }
    fn fresh(&self) -> &MdkMemoryStorage {
        &self.0
    }
    fn reset(&mut self) {
        self.0 = MdkMemoryStorage::with_limits(mdk_memory_storage::ValidationLimits::default().with_max_messages_per_group(2));
        base_state(&self.0);
    }
}

pub struct Sql(MdkSqliteStorage);
impl Backend for Sql {
    type S = MdkSqliteStorage;
    fn name() -> &'static str {
        "sqlite"
    }
    fn fresh(&self) -> &MdkSqliteStorage {
        &self.0
    }
    fn reset(&mut self) {
        // a connection mutex poisoned by an aborted execution cannot be reused
        let ok = std::panic::catch_unwind(std::panic::AssertUnwindSafe(|| storex::reset_sqlite(&self.0))).is_ok();
        if !ok {
            self.0 = storex::fresh_sqlite();
        }
        base_state(&self.0);
    }
}

/// all interleavings of the per-thread programs (program order kept), as lists of (thread, index)
fn orders(lens: &[usize]) -> Vec<Vec<(usize, usize)>> {
    fn rec(lens: &[usize], pos: &mut Vec<usize>, cur: &mut Vec<(usize, usize)>, out: &mut Vec<Vec<(usize, usize)>>) {
        if (0..lens.len()).all(|t| pos[t] == lens[t]) {
            out.push(cur.clone());
            return;
        }
        for t in 0..lens.len() {
            if pos[t] < lens[t] {
                cur.push((t, pos[t]));
                pos[t] += 1;
                rec(lens, pos, cur, out);
                pos[t] -= 1;
                cur.pop();
            }
        }
    }
    let mut out = Vec::new();
    rec(lens, &mut vec![0; lens.len()], &mut Vec::new(), &mut out);
    out
}

pub struct SetResult {
    pub schedules: u64,
    pub decisions: u64,
    pub outcomes: usize,
    pub sequential_outcomes: usize,
    pub capped: bool,
    pub findings: Vec<(String, String, serde_json::Value)>,
}

/// explore one program set on one backend
pub fn check_set<B: Backend>(b: &mut B, programs: &[Vec<COp>], bound: Option<usize>, max_schedules: u64) -> SetResult {
    let lens: Vec<usize> = programs.iter().map(|p| p.len()).collect();
    // sequential reference: every order, on the same backend, outside the scheduler
    let mut seq: BTreeMap<Outcome, Vec<(usize, usize)>> = BTreeMap::new();
    let all_orders = orders(&lens);
    let mut per_order: Vec<(Vec<(usize, usize)>, Outcome)> = Vec::new();
    for o in &all_orders {
        b.reset();
        let s = b.fresh();
        let mut results: Vec<Vec<String>> = lens.iter().map(|l| vec![String::new(); *l]).collect();
        for (t, i) in o {
            results[*t][*i] = capply(s, &programs[*t][*i]);
        }
        let oc = Outcome { results, fin: final_phase(s) };
        seq.entry(oc.clone()).or_insert_with(|| o.clone());
        per_order.push((o.clone(), oc));
    }
    // "operations on different groups do not disturb each other": when one thread works on group 1 only and all the
    // others on group 0 only, what the others get back and everything readable about group 0 afterwards must be what
    // some sequential order of the others ALONE gives (judged against runs without the bystander, so that a
    // disturbance which is the same in every order still shows)
    let bystander: Option<usize> = (0..programs.len()).find(|t| programs.len() >= 2 && programs[*t].iter().all(|o| o.group() == Some(1)) && (0..programs.len()).filter(|u| u != t).all(|u| programs[u].iter().all(|o| o.group() == Some(0))));
    let g0_view = |fin: &Vec<(String, String)>| -> Vec<(String, String)> { fin.iter().filter(|(k, _)| k.split_once('(').map(|(_, rest)| rest.starts_with("0)") || rest.starts_with("0,")).unwrap_or(false)).cloned().collect() };
    let mut alone: BTreeSet<(Vec<Vec<String>>, Vec<(String, String)>)> = BTreeSet::new();
    if let Some(bt) = bystander {
        let others: Vec<usize> = (0..programs.len()).filter(|t| *t != bt).collect();
        let olens: Vec<usize> = others.iter().map(|t| lens[*t]).collect();
        for o in orders(&olens) {
            b.reset();
            let s = b.fresh();
            let mut results: Vec<Vec<String>> = olens.iter().map(|l| vec![String::new(); *l]).collect();
            for (k, i) in &o {
                results[*k][*i] = capply(s, &programs[others[*k]][*i]);
            }
            alone.insert((results, g0_view(&final_phase(s))));
        }
    }
    let n = programs.len();
    let mut res = SetResult { schedules: 0, decisions: 0, outcomes: 0, sequential_outcomes: seq.len(), capped: false, findings: Vec::new() };
    let mut seen: BTreeSet<u64> = BTreeSet::new();
    // interior mutability so that the explorer's reset closure and body can share the backend
    let cell = std::sync::RwLock::new(b);
    let recs: Mutex<Vec<Vec<(u64, u64, String)>>> = Mutex::new(Vec::new());
    let body = |t: usize| {
        let g = cell.read().unwrap();
        let s = g.fresh();
        for (i, op) in programs[t].iter().enumerate() {
            let start = sched::now();
            let r = capply(s, op);
            let end = sched::now();
            recs.lock().unwrap()[t][i] = (start, end, r);
        }
    };
    let mut reset = || {
        cell.write().unwrap().reset();
        *recs.lock().unwrap() = lens.iter().map(|l| vec![(0, 0, String::new()); *l]).collect();
    };
    let mut findings: Vec<(String, String, serde_json::Value)> = Vec::new();
    let classes: Vec<String> = programs.iter().map(|p| p.iter().map(|o| o.class()).collect::<Vec<_>>().join(",")).collect();
    let mut visit = |choices: &[usize], e: &sched::Execution| -> bool {
        if let Some(a) = &e.aborted {
            let kind = if a.starts_with("deadlock") { "deadlock" } else { "scheduler" };
            findings.push((format!("C19|{}|{kind}|{}", B::name(), classes.join(" || ")), format!("{a} in programs {programs:?}, schedule {choices:?}"), json!({"backend": B::name(), "programs": programs, "schedule": choices})));
            return true;
        }
        if !e.panics.is_empty() {
            findings.push((format!("C19|{}|panic|{}", B::name(), classes.join(" || ")), format!("a storage call panicked ({}) in programs {programs:?}, schedule {choices:?}", e.panics[0].1), json!({"backend": B::name(), "programs": programs, "schedule": choices})));
            return true;
        }
        let r = recs.lock().unwrap().clone();
        let fin = {
            let g = cell.read().unwrap();
            final_phase(g.fresh())
        };
        let oc = Outcome { results: r.iter().map(|v| v.iter().map(|x| x.2.clone()).collect()).collect(), fin };
        let h = h64(&format!("{:?}{:?}", oc.results, oc.fin));
        if !seen.insert(h) {
            return true;
        }
        if let Some(bt) = bystander {
            let proj: Vec<Vec<String>> = (0..n).filter(|t| *t != bt).map(|t| oc.results[t].clone()).collect();
            let view = g0_view(&oc.fin);
            if !alone.contains(&(proj.clone(), view.clone())) {
                let mut d: BTreeSet<String> = BTreeSet::new();
                if !alone.iter().any(|(r, _)| *r == proj) {
                    d.insert("results-of-the-other-threads".into());
                }
                if let Some((_, v)) = alone.iter().find(|(r, _)| *r == proj).or(alone.iter().next()) {
                    for (a, bb) in v.iter().zip(view.iter()) {
                        if a != bb {
                            d.insert(format!("state:{}", a.0.split('(').next().unwrap_or("")));
                        }
                    }
                }
                let what = d.into_iter().collect::<Vec<_>>().join("+");
                findings.push((
                    format!("C19|{}|another-groups-operation-disturbs|{}|{what}", B::name(), classes.join(" || ")),
                    format!("programs {programs:?} under schedule {choices:?}: thread {bt} works on group 1 only, yet the other threads' results / group 0's readable state ({what}) are not what those threads alone produce in any order"),
                    json!({"backend": B::name(), "programs": programs, "schedule": choices, "results": oc.results}),
                ));
                return true;
            }
        }
        // a sequential order with this outcome that also respects real-time order (a call that returned before another was invoked comes first)
        let ok = per_order.iter().any(|(o, soc)| {
            if *soc != oc {
                return false;
            }
            let posn: BTreeMap<(usize, usize), usize> = o.iter().enumerate().map(|(k, x)| (*x, k)).collect();
            for (ta, va) in r.iter().enumerate() {
                for (ia, a) in va.iter().enumerate() {
                    for (tb, vb) in r.iter().enumerate() {
                        for (ib, bb) in vb.iter().enumerate() {
                            if ta != tb && a.1 < bb.0 && posn[&(ta, ia)] > posn[&(tb, ib)] {
                                return false;
                            }
                        }
                    }
                }
            }
            true
        });
        if !ok {
            // describe the difference against the closest sequential outcome
            let mut best: Option<(usize, Vec<String>)> = None;
            for soc in seq.keys() {
                let mut d: Vec<String> = Vec::new();
                for t in 0..n {
                    for i in 0..lens[t] {
                        if soc.results[t][i] != oc.results[t][i] {
                            d.push(format!("result-of-{}", programs[t][i].class()));
                        }
                    }
                }
                for (k, (a, bb)) in soc.fin.iter().zip(oc.fin.iter()).enumerate() {
                    if a != bb {
                        let _ = k;
                        let key = a.0.split('(').next().unwrap_or("").to_string();
                        d.push(format!("state:{key}"));
                    }
                }
                d.sort();
                d.dedup();
                if best.as_ref().map(|b| d.len() < b.0).unwrap_or(true) {
                    best = Some((d.len(), d));
                }
            }
            let d = best.map(|b| b.1).unwrap_or_default();
            let what = if d.is_empty() { "only-in-an-order-that-contradicts-real-time".to_string() } else { d.join("+") };
            findings.push((
                format!("C19|{}|not-sequential|{}|{what}", B::name(), classes.join(" || ")),
                format!("programs {programs:?} under schedule {choices:?}: results {:?} and the state afterwards match no sequential order of the calls (closest differs in {what})", oc.results),
                json!({"backend": B::name(), "programs": programs, "schedule": choices, "results": oc.results, "intervals": r.iter().map(|v| v.iter().map(|x| (x.0, x.1)).collect::<Vec<_>>()).collect::<Vec<_>>()}),
            ));
        }
        true
    };
    let ex = sched::explore(n, bound, max_schedules, &body, &mut visit, &mut reset);
    res.schedules = ex.schedules;
    res.decisions = ex.decisions;
    res.capped = ex.bound_hit;
    res.outcomes = seen.len();
    res.findings = findings;
    res
}

pub fn alphabet(theme: &str) -> Vec<COp> {
    match theme {
        "groups" => vec![
            COp::SaveGroup { g: 0, name: 1, epoch: 2 },
            COp::SaveGroup { g: 0, name: 2, epoch: 3 },
            COp::SaveGroup { g: 1, name: 1, epoch: 2 },
            COp::Relays { g: 0, set: 2 },
            COp::Relays { g: 0, set: 3 },
            COp::Secret { g: 0, epoch: 1, val: 2 },
            COp::RGroup { g: 0 },
            COp::RAll,
            COp::RRelays { g: 0 },
            COp::RSecret { g: 0, epoch: 1 },
        ],
        "snapshots" => vec![
            COp::SnapCreate { g: 0, name: 1 },
            COp::SnapRollback { g: 0, name: 0 },
            COp::SnapRelease { g: 0, name: 0 },
            COp::MlsState { g: 0, val: 2 },
            COp::SaveGroup { g: 0, name: 1, epoch: 2 },
            COp::Secret { g: 0, epoch: 2, val: 2 },
            COp::Relays { g: 0, set: 2 },
            COp::MlsLeaf { g: 0, val: 2 },
            COp::SaveGroup { g: 1, name: 1, epoch: 2 },
            // the other group takes a snapshot under the name group 0's base snapshot has
            COp::SnapCreate { g: 1, name: 0 },
            COp::RSnaps { g: 0 },
            COp::RMlsState { g: 0 },
            COp::RGroup { g: 0 },
        ],
        "message-capacity" => vec![
            COp::MsgAged { g: 0, id: 1 },
            COp::MsgAged { g: 0, id: 2 },
            COp::MsgAged { g: 0, id: 3 },
            COp::Msg { g: 0, id: 0, state: 2 },
            COp::MsgAged { g: 1, id: 1 },
            COp::RMsgs { g: 0 },
        ],
        "welcomes" => vec![
            COp::Welcome { id: 0, state: 0 },
            COp::Welcome { id: 0, state: 1 },
            COp::Welcome { id: 1, state: 0 },
            COp::ProcWelcome { w: 0, failed: false },
            COp::Proc { w: 1, state: 1 },
            COp::Retry { w: 1 },
            COp::InvProc { g: 0, epoch: 0 },
            COp::SnapPrune { all: true },
            COp::SaveGroup { g: 0, name: 1, epoch: 2 },
            COp::RWelcome { id: 0 },
            COp::RPendingWelcomes,
            COp::RProc { w: 1 },
            COp::RFailedForRetry { g: 0 },
            COp::RByNostr { n: 0 },
        ],
        _ => vec![
            COp::Msg { g: 0, id: 1, state: 0 },
            COp::Msg { g: 0, id: 0, state: 2 },
            COp::InvMsgs { g: 0, epoch: 0 },
            COp::Proc { w: 0, state: 0 },
            COp::Proc { w: 0, state: 1 },
            COp::SaveGroup { g: 0, name: 1, epoch: 2 },
            COp::RMsgs { g: 0 },
            COp::RMsg { g: 0, id: 0 },
            COp::RGroup { g: 0 },
        ],
    }
}

/// all program sets of a shape over an alphabet; thread programs of equal length are unordered (sets with
/// the same programs in another thread order are the same test)
pub fn program_sets(alpha: &[COp], shape: &[usize]) -> Vec<Vec<Vec<COp>>> {
    fn seqs(alpha: &[COp], len: usize) -> Vec<Vec<COp>> {
        let mut out: Vec<Vec<COp>> = vec![vec![]];
        for _ in 0..len {
            let mut nx = Vec::new();
            for p in &out {
                for a in alpha {
                    let mut q = p.clone();
                    q.push(a.clone());
                    nx.push(q);
                }
            }
            out = nx;
        }
        out
    }
    let mut sets: Vec<Vec<Vec<COp>>> = vec![vec![]];
    for (k, len) in shape.iter().enumerate() {
        let progs = seqs(alpha, *len);
        let mut nx = Vec::new();
        for s in &sets {
            for p in &progs {
                if k > 0 && shape[k - 1] == *len && s[k - 1] > *p {
                    continue;
                }
                let mut q = s.clone();
                q.push(p.clone());
                nx.push(q);
            }
        }
        sets = nx;
    }
    // a set in which no thread writes cannot distinguish orders
    let is_read = |o: &COp| matches!(o, COp::RGroup { .. } | COp::RAll | COp::RRelays { .. } | COp::RSecret { .. } | COp::RMsgs { .. } | COp::RMsg { .. } | COp::RSnaps { .. } | COp::RMlsState { .. } | COp::RLeaves { .. } | COp::RWelcome { .. } | COp::RPendingWelcomes | COp::RProc { .. } | COp::RFailedForRetry { .. } | COp::RByNostr { .. });
    sets.retain(|s| s.iter().filter(|p| p.iter().any(|o| !is_read(o))).count() >= 1 && s.iter().flatten().filter(|o| !is_read(o)).count() >= 1);
    sets
}

fn run_backend<B: Backend>(mk: &(dyn Fn() -> B + Sync), rep: &mut Report, themes: &[&str], shapes: &[Vec<usize>], bound: Option<usize>, max_schedules: u64, thorough: bool) {
    let mut work: Vec<(String, Vec<Vec<COp>>)> = Vec::new();
    for th in themes {
        let a = alphabet(th);
        for sh in shapes {
            // the fourth alphabet is the largest: its 2+1 programs are left to the thorough tier
            if (*th == "welcomes" || *th == "messages") && !thorough && sh.len() == 2 && sh[0] == 2 {
                continue;
            }
            for set in program_sets(&a, sh) {
                work.push((format!("{th}/{sh:?}"), set));
            }
        }
    }
    let next = std::sync::atomic::AtomicUsize::new(0);
    let agg: Mutex<(u64, u64, u64, u64, u64, BTreeMap<String, u64>, Vec<(String, String, serde_json::Value)>, BTreeSet<u64>)> = Mutex::new((0, 0, 0, 0, 0, BTreeMap::new(), Vec::new(), BTreeSet::new()));
    let t0 = std::time::Instant::now();
    let cap = std::env::var("VERIF_WALL_CAP_S").ok().and_then(|s| s.parse::<u64>().ok()).unwrap_or(u64::MAX);
    std::thread::scope(|sc| {
        for _ in 0..crate::e1::threads() {
            let (work, next, agg) = (&work, &next, &agg);
            sc.spawn(move || {
                let mut b = mk();
                loop {
                    let i = next.fetch_add(1, std::sync::atomic::Ordering::Relaxed);
                    if i >= work.len() {
                        break;
                    }
                    if t0.elapsed().as_secs() > cap {
                        agg.lock().unwrap().4 += 1;
                        continue;
                    }
                    let r = check_set(&mut b, &work[i].1, bound, max_schedules);
                    let mut g = agg.lock().unwrap();
                    g.0 += r.schedules;
                    g.1 += r.decisions;
                    g.2 += 1;
                    if r.capped {
                        g.3 += 1;
                    }
                    *g.5.entry(format!("{}:{}", B::name(), work[i].0)).or_insert(0) += r.schedules;
                    if r.outcomes > 1 {
                        g.7.insert(h64(&format!("{}{:?}", B::name(), work[i].1)));
                    }
                    g.6.extend(r.findings);
                }
            });
        }
    });
    let g = agg.into_inner().unwrap();
    rep.states += g.2;
    rep.transitions += g.1;
    rep.evaluations += g.0;
    rep.add_count(&format!("{}_program_sets", B::name()), g.2);
    rep.add_count(&format!("{}_schedules", B::name()), g.0);
    rep.add_count(&format!("{}_program_sets_with_more_than_one_outcome", B::name()), g.7.len() as u64);
    if g.3 > 0 {
        rep.add_count(&format!("{}_program_sets_cut_at_schedule_cap", B::name()), g.3);
        rep.exhaustive = false;
        rep.extra.insert(format!("{}_cap", B::name()), json!(format!("{} program sets were cut at {max_schedules} schedules", g.3)));
    }
    if g.4 > 0 {
        rep.exhaustive = false;
        rep.extra.insert(format!("{}_wall_cap", B::name()), json!(format!("{} program sets skipped at the wall-clock cap", g.4)));
    }
    for (k, v) in g.5 {
        rep.add_count(&format!("schedules_{k}"), v);
    }
    rep.distinct.extend(g.7);
    for (sig, what, d) in g.6 {
        rep.finding(sig, what, d);
    }
}

pub fn check_c19(rep: &mut Report, thorough: bool) {
    sched::install();
    let themes = ["groups", "snapshots", "messages", "welcomes"];
    let shapes: Vec<Vec<usize>> = if thorough { vec![vec![1, 1], vec![2, 1], vec![2, 2], vec![1, 1, 1], vec![2, 1, 1], vec![3, 1]] } else { vec![vec![1, 1], vec![2, 1], vec![1, 1, 1]] };
    let bound = None;
    if std::env::var("VERIF_OPENS_ONLY").is_ok() {
        crate::c13::concurrent_opens(rep, thorough);
        return;
    }
    run_backend(&|| { let mut m = Mem(MdkMemoryStorage::default()); m.reset(); m }, rep, &themes, &shapes, bound, 20_000, thorough);
    run_backend(&|| { let mut m = Sql(storex::fresh_sqlite()); m.reset(); m }, rep, &themes, &shapes, bound, 20_000, thorough);
    run_backend(&|| { let mut m = MemCap(MdkMemoryStorage::default()); m.reset(); m }, rep, &["message-capacity"], &shapes, bound, 20_000, thorough);
    // first opens of one database path from several threads (yield points in the SQLite constructors)
    crate::c13::concurrent_opens(rep, thorough);
    rep.sample(json!({"programs": [["SnapCreate{g:0,name:1}"], ["MlsState{g:0,val:2}", "SaveGroup{g:0,name:1,epoch:2}"]], "schedule_points": "every lock acquisition of the backend", "oracle": "call results + full read surface + (rollback to snap1, full read surface) equal those of a sequential order respecting program and real-time order"}));
}
