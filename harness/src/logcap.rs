//! C14 monitor: capture every tracing record (all levels, all targets) emitted on the current
//! thread, plus values the harness notes (errors, results), and scan them for sensitive bytes.

use std::cell::RefCell;
use std::fmt::Write as _;
use std::sync::Once;
use std::sync::atomic::{AtomicU64, Ordering};

use tracing::field::{Field, Visit};
use tracing::span::{Attributes, Id, Record};
use tracing::{Event, Metadata, Subscriber};

thread_local! {
    static BUF: RefCell<Option<Vec<String>>> = const { RefCell::new(None) };
}

pub static TOTAL_RECORDS: AtomicU64 = AtomicU64::new(0);

struct Cap;

struct V<'a>(&'a mut String);
impl Visit for V<'_> {
    fn record_debug(&mut self, field: &Field, value: &dyn std::fmt::Debug) {
        let _ = write!(self.0, " {}={:?}", field.name(), value);
    }
    fn record_str(&mut self, field: &Field, value: &str) {
        let _ = write!(self.0, " {}={}", field.name(), value);
    }
}

impl Subscriber for Cap {
    fn enabled(&self, _: &Metadata<'_>) -> bool {
        true
    }
    fn new_span(&self, attrs: &Attributes<'_>) -> Id {
        let mut s = format!("SPAN {} {}", attrs.metadata().target(), attrs.metadata().name());
        attrs.record(&mut V(&mut s));
        push(s);
        Id::from_u64(1)
    }
    fn record(&self, _: &Id, values: &Record<'_>) {
        let mut s = String::from("RECORD");
        values.record(&mut V(&mut s));
        push(s);
    }
    fn record_follows_from(&self, _: &Id, _: &Id) {}
    fn event(&self, event: &Event<'_>) {
        let md = event.metadata();
        let mut s = format!("{} {}:", md.level(), md.target());
        event.record(&mut V(&mut s));
        push(s);
    }
    fn enter(&self, _: &Id) {}
    fn exit(&self, _: &Id) {}
}

fn push(s: String) {
    TOTAL_RECORDS.fetch_add(1, Ordering::Relaxed);
    BUF.with(|b| {
        if let Some(v) = b.borrow_mut().as_mut() {
            v.push(s);
        }
    });
}

static INIT: Once = Once::new();

pub fn install() {
    INIT.call_once(|| {
        let _ = tracing::subscriber::set_global_default(Cap);
    });
}

pub fn begin() {
    install();
    BUF.with(|b| *b.borrow_mut() = Some(Vec::new()));
}

/// harness-side values that are part of the observation surface (errors, results)
pub fn note(s: String) {
    BUF.with(|b| {
        if let Some(v) = b.borrow_mut().as_mut() {
            v.push(format!("NOTE {s}"));
        }
    });
}

pub fn end() -> Vec<String> {
    BUF.with(|b| b.borrow_mut().take().unwrap_or_default())
}

pub fn needles(secret: &[u8]) -> Vec<String> {
    let lower = hex::encode(secret);
    let upper = lower.to_uppercase();
    let list = secret.iter().map(|b| b.to_string()).collect::<Vec<_>>().join(", ");
    vec![lower, upper, list]
}

/// returns "label@template" for every record containing a sensitive value
pub fn scan(recs: &[String], secrets: &[(String, Vec<u8>)]) -> Vec<String> {
    let mut hits = Vec::new();
    for (label, bytes) in secrets {
        if bytes.len() < 8 {
            continue;
        }
        for n in needles(bytes) {
            for r in recs {
                if r.contains(&n) {
                    // template: the record with the needle and all long hex runs removed
                    let t = template(&r.replace(&n, "<SECRET>"));
                    hits.push(format!("{label}@{t}"));
                }
            }
        }
    }
    hits.sort();
    hits.dedup();
    hits
}

pub fn template(s: &str) -> String {
    // collapse runs of hex digits >= 8 and decimal runs so that ids and counters do not vary the signature
    let mut out = String::new();
    let cs: Vec<char> = s.chars().collect();
    let mut i = 0;
    while i < cs.len() {
        if cs[i].is_ascii_hexdigit() {
            let mut j = i;
            while j < cs.len() && cs[j].is_ascii_hexdigit() {
                j += 1;
            }
            if j - i >= 8 {
                out.push('#');
            } else if cs[i..j].iter().all(|c| c.is_ascii_digit()) {
                out.push('N');
            } else {
                out.extend(&cs[i..j]);
            }
            i = j;
        } else {
            out.push(cs[i]);
            i += 1;
        }
    }
    out.chars().take(160).collect()
}
