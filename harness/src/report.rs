//! Findings, known-findings matching, replay files, evidence files.

use std::collections::{BTreeMap, BTreeSet};
use std::time::Instant;

use serde_json::{Value, json};

use crate::lab::h64;

#[derive(Debug, Clone)]
pub struct Finding {
    pub prop: String,
    /// stable identity of the failing history / input (no random ids, no timestamps)
    pub signature: String,
    /// human-readable: what fails
    pub what: String,
    /// everything needed to replay (scenario, member, backend, regime, trace labels, observations)
    pub detail: Value,
}

pub struct Report {
    pub prop: String,
    pub tier: String,
    pub level: String,
    pub seed: i64,
    pub start: Instant,
    pub states: u64,
    pub transitions: u64,
    pub traces_validated: u64,
    pub evaluations: u64,
    pub distinct: BTreeSet<u64>,
    pub rule: String,
    pub samples: Vec<Value>,
    pub extra: BTreeMap<String, Value>,
    pub findings: Vec<Finding>,
    pub assumptions: Vec<String>,
    pub machinery_errors: Vec<String>,
    pub exhaustive: bool,
    pub outcomes: BTreeMap<String, u64>,
}

impl Report {
    pub fn new(prop: &str, tier: &str, level: &str) -> Report {
        let seed = std::env::var("VERIF_SEED").ok().and_then(|s| s.parse().ok()).unwrap_or(0);
        Report {
            prop: prop.into(),
            tier: tier.into(),
            level: level.into(),
            seed,
            start: Instant::now(),
            states: 0,
            transitions: 0,
            traces_validated: 0,
            evaluations: 0,
            distinct: BTreeSet::new(),
            rule: String::new(),
            samples: vec![],
            extra: BTreeMap::new(),
            findings: vec![],
            assumptions: vec![],
            machinery_errors: vec![],
            exhaustive: true,
            outcomes: BTreeMap::new(),
        }
    }

    pub fn add_count(&mut self, k: &str, n: u64) {
        let e = self.extra.entry(k.to_string()).or_insert(json!(0));
        *e = json!(e.as_u64().unwrap_or(0) + n);
    }

    pub fn outcome(&mut self, k: &str) {
        *self.outcomes.entry(k.to_string()).or_insert(0) += 1;
    }

    pub fn case(&mut self, distinct_key: &str) {
        self.evaluations += 1;
        self.distinct.insert(h64(distinct_key));
    }

    pub fn sample(&mut self, v: Value) {
        if self.samples.len() < 6 {
            self.samples.push(v);
        }
    }

    pub fn finding(&mut self, signature: String, what: String, detail: Value) {
        self.findings.push(Finding { prop: self.prop.clone(), signature, what, detail });
    }

    pub fn merge(&mut self, o: Report) {
        self.states += o.states;
        self.transitions += o.transitions;
        self.traces_validated += o.traces_validated;
        self.evaluations += o.evaluations;
        self.distinct.extend(o.distinct);
        for s in o.samples {
            self.sample(s);
        }
        for (k, v) in o.extra {
            if let Some(n) = v.as_u64() {
                self.add_count(&k, n);
            } else {
                self.extra.insert(k, v);
            }
        }
        for (k, v) in o.outcomes {
            *self.outcomes.entry(k).or_insert(0) += v;
        }
        self.findings.extend(o.findings);
        self.machinery_errors.extend(o.machinery_errors);
        self.exhaustive &= o.exhaustive;
    }

    /// Write evidence, print KNOWN-FINDING / VIOLATION lines, return the process exit code.
    pub fn finish(mut self) -> i32 {
        let verif = verif_dir();
        let known = load_known(&verif, &self.prop);
        // group findings by signature
        let mut by_sig: BTreeMap<String, Vec<Finding>> = BTreeMap::new();
        for f in std::mem::take(&mut self.findings) {
            by_sig.entry(f.signature.clone()).or_default().push(f);
        }
        let mut violations = 0;
        let mut known_hit = 0;
        let mut lines = Vec::new();
        for (sig, fs) in &by_sig {
            if let Some(desc) = known.get(sig) {
                known_hit += 1;
                lines.push(format!("KNOWN-FINDING: property={} {} [{}] ({} occurrence(s))", self.prop, desc, sig, fs.len()));
            } else {
                violations += 1;
                let dir = verif.join("replays").join(&self.prop);
                let _ = std::fs::create_dir_all(&dir);
                let path = dir.join(format!("{:016x}.json", h64(sig)));
                let body = json!({"property": self.prop, "signature": sig, "what": fs[0].what, "occurrences": fs.len(), "first": fs[0].detail});
                let _ = std::fs::write(&path, serde_json::to_string_pretty(&body).unwrap());
                lines.push(format!("  signature: {sig}\n  what: {}", fs[0].what));
                lines.push(format!("VIOLATION property={} replay={}", self.prop, path.display()));
            }
        }
        let wall = self.start.elapsed().as_secs_f64();
        let mut coverage = serde_json::Map::new();
        if self.level == "model_checking" {
            coverage.insert("states".into(), json!(self.states));
            coverage.insert("transitions".into(), json!(self.transitions));
            coverage.insert("traces_validated_against_impl".into(), json!(self.traces_validated));
        }
        coverage.insert("evaluations".into(), json!(self.evaluations.max(self.transitions)));
        coverage.insert("distinct_nontrivial".into(), json!(self.distinct.len()));
        coverage.insert("rule".into(), json!(self.rule));
        coverage.insert("samples".into(), json!(self.samples));
        coverage.insert("exhaustive".into(), json!(self.exhaustive));
        coverage.insert("distinct_outcomes".into(), json!(self.outcomes));
        coverage.insert("known_findings_hit".into(), json!(known_hit));
        coverage.insert("finding_signatures".into(), json!(by_sig.keys().cloned().collect::<Vec<_>>()));
        for (k, v) in &self.extra {
            coverage.insert(k.clone(), v.clone());
        }
        let ev = json!({
            "property_id": self.prop,
            "tier": self.tier,
            "seed": self.seed,
            "level": self.level,
            "coverage": Value::Object(coverage),
            "assumptions": self.assumptions,
            "wall_s": wall,
            "violations": violations,
        });
        let evdir = verif.join("evidence");
        let _ = std::fs::create_dir_all(&evdir);
        let _ = std::fs::write(evdir.join(format!("{}.json", self.prop)), serde_json::to_string_pretty(&ev).unwrap());
        for l in &lines {
            println!("{l}");
        }
        println!(
            "{} {}: states={} transitions={} evaluations={} distinct={} validated_traces={} known={} violations={} wall={:.1}s",
            self.prop, self.tier, self.states, self.transitions, self.evaluations, self.distinct.len(), self.traces_validated, known_hit, violations, wall
        );
        if !self.machinery_errors.is_empty() {
            for e in &self.machinery_errors {
                eprintln!("MACHINERY-ERROR: {e}");
            }
            // a violation that was found and printed stays a verdict; without one the run decides nothing
            if violations == 0 {
                return 2;
            }
        }
        if violations > 0 { 1 } else { 0 }
    }
}

pub fn verif_dir() -> std::path::PathBuf {
    std::env::var("VERIF_DIR").map(std::path::PathBuf::from).unwrap_or_else(|_| std::path::PathBuf::from("/verif"))
}

/// known_findings.jsonl: {"property": "C01", "signature": "...", "status": "known"|"fixed", "what": "..."}
fn load_known(verif: &std::path::Path, prop: &str) -> BTreeMap<String, String> {
    let mut m = BTreeMap::new();
    if let Ok(s) = std::fs::read_to_string(verif.join("known_findings.jsonl")) {
        for l in s.lines() {
            let l = l.trim();
            if l.is_empty() || l.starts_with('#') {
                continue;
            }
            if let Ok(v) = serde_json::from_str::<Value>(l) {
                if v["property"].as_str() == Some(prop) && v["status"].as_str() == Some("known") {
                    if let Some(sig) = v["signature"].as_str() {
                        m.insert(sig.to_string(), v["what"].as_str().unwrap_or("").to_string());
                    }
                }
            }
        }
    }
    m
}
