//! The lab: real MDK clients over forkable storage, observable fingerprints, search keys.
//!
//! Everything here drives the *real* mdk code; nothing is modelled.

use std::collections::{BTreeMap, BTreeSet};
use std::path::PathBuf;
use std::sync::atomic::{AtomicU64, Ordering};

use mdk_core::prelude::*;
use mdk_core::{MDK, MdkConfig};
use mdk_memory_storage::MdkMemoryStorage;
use mdk_sqlite_storage::MdkSqliteStorage;
use mdk_storage_traits::groups::types::{GroupState, SelfUpdateState};
use mdk_storage_traits::messages::types::ProcessedMessage;
use mdk_storage_traits::{GroupId, MdkStorageProvider};
use nostr::{Event, EventBuilder, EventId, Keys, Kind, RelayUrl, UnsignedEvent};
use openmls::prelude::OpenMlsProvider;
use mdk_storage_traits::groups::GroupStorage;
use mdk_storage_traits::messages::MessageStorage;
use serde::{Deserialize, Serialize};
use serde_json::{Value, json};
use sha2::{Digest, Sha256};

pub fn hx(b: &[u8]) -> String {
    hex::encode(b)
}

pub fn h64(s: &str) -> u64 {
    let d = Sha256::digest(s.as_bytes());
    u64::from_be_bytes(d[..8].try_into().unwrap())
}

// ---------------------------------------------------------------------------------------
// Scratch directory for SQLite files (RAM-backed)
// ---------------------------------------------------------------------------------------

static SCRATCH_SEQ: AtomicU64 = AtomicU64::new(0);

pub fn scratch_root() -> PathBuf {
    let base = if std::path::Path::new("/dev/shm").is_dir() {
        PathBuf::from("/dev/shm")
    } else {
        std::env::temp_dir()
    };
    let p = base.join(format!("mdkv-{}", std::process::id()));
    let _ = std::fs::create_dir_all(&p);
    p
}

pub fn scratch_cleanup() {
    let _ = std::fs::remove_dir_all(scratch_root());
}

thread_local! {
    /// one sub-directory per thread: creating and unlinking thousands of database files in one tmpfs directory
    /// from sixteen threads serialises on that directory
    static SCRATCH_DIR: std::cell::RefCell<Option<PathBuf>> = const { std::cell::RefCell::new(None) };
}

pub fn scratch_file(tag: &str) -> PathBuf {
    let n = SCRATCH_SEQ.fetch_add(1, Ordering::SeqCst);
    let dir = SCRATCH_DIR.with(|d| {
        let mut d = d.borrow_mut();
        if d.is_none() {
            let p = scratch_root().join(format!("t{n}"));
            let _ = std::fs::create_dir_all(&p);
            *d = Some(p);
        }
        d.clone().unwrap()
    });
    dir.join(format!("{tag}-{n}.db"))
}

// ---------------------------------------------------------------------------------------
// Forkable storage
// ---------------------------------------------------------------------------------------

#[derive(Debug, Clone, Copy, PartialEq, Eq, Hash, PartialOrd, Ord, Serialize, Deserialize)]
pub enum Bk {
    Memory,
    Sqlite,
}

pub fn mem_fork(st: &MdkMemoryStorage) -> MdkMemoryStorage {
    // same limits as the original (a scenario may run with a small per-group message capacity)
    let s = MdkMemoryStorage::with_limits(st.limits().clone());
    s.restore_snapshot(st.create_snapshot());
    s.verif_copy_group_snapshots_from(st);
    s
}

/// SQLite store bound to a scratch file which is removed when the store is dropped.
pub struct SqlStoreFile {
    pub path: PathBuf,
}
impl Drop for SqlStoreFile {
    fn drop(&mut self) {
        let _ = std::fs::remove_file(&self.path);
        for suf in ["-journal", "-wal", "-shm"] {
            let mut p = self.path.clone().into_os_string();
            p.push(suf);
            let _ = std::fs::remove_file(PathBuf::from(p));
        }
    }
}

pub fn sqlite_open(path: &std::path::Path) -> MdkSqliteStorage {
    MdkSqliteStorage::new_unencrypted(path).expect("open sqlite scratch db")
}

/// Fill a freshly created database with every row of the database file `src` (same schema).
pub fn sqlite_copy_rows(dst: &MdkSqliteStorage, src: &std::path::Path) {
    dst.verif_with_connection(|conn| {
        let src_s = src.to_string_lossy().replace('\'', "''");
        conn.execute_batch(&format!("ATTACH DATABASE '{src_s}' AS src;")).expect("attach");
        let tables: Vec<String> = {
            let mut st = conn.prepare("SELECT name FROM src.sqlite_master WHERE type='table' AND name NOT LIKE 'sqlite_%' AND name NOT LIKE 'refinery%' ORDER BY name").unwrap();
            st.query_map([], |r| r.get::<_, String>(0)).unwrap().filter_map(|x| x.ok()).collect()
        };
        // parents first: every foreign key of the schema points at `groups`
        let mut tables = tables;
        tables.sort_by_key(|t| (t != "groups", t.clone()));
        let mut sql = String::from("BEGIN;");
        for t in &tables {
            sql.push_str(&format!("DELETE FROM main.{t};"));
        }
        // parents before children is not needed with deferred foreign keys
        for t in &tables {
            sql.push_str(&format!("INSERT INTO main.{t} SELECT * FROM src.{t};"));
        }
        sql.push_str("DELETE FROM main.sqlite_sequence; INSERT INTO main.sqlite_sequence SELECT * FROM src.sqlite_sequence;");
        if std::env::var("VERIF_DEBUG").is_ok() {
            let _ = conn.execute_batch(&sql);
            let mut st = conn.prepare("PRAGMA main.foreign_key_check").unwrap();
            let rows: Vec<String> = st.query_map([], |r| Ok(format!("{:?} {:?} {:?}", r.get::<_, String>(0), r.get::<_, Option<i64>>(1), r.get::<_, String>(2)))).unwrap().filter_map(|x| x.ok()).collect();
            eprintln!("fk_check before commit: {rows:?}");
            let _ = conn.execute_batch("ROLLBACK;");
        }
        sql.push_str("COMMIT;");
        if let Err(e) = conn.execute_batch(&sql) {
            let mut st = conn.prepare("PRAGMA foreign_key_check").unwrap();
            let rows: Vec<String> = st.query_map([], |r| Ok(format!("{:?} {:?} {:?}", r.get::<_, String>(0), r.get::<_, Option<i64>>(1), r.get::<_, String>(2)))).unwrap().filter_map(|x| x.ok()).collect();
            panic!("copy rows: {e} fk_check={rows:?}");
        }
        conn.execute_batch("DETACH DATABASE src;").expect("detach");
    });
}

pub fn sqlite_dump(s: &MdkSqliteStorage) -> Vec<String> {
    s.verif_with_connection(|conn| {
        let mut out = Vec::new();
        let tables: Vec<String> = {
            let mut st = conn
                .prepare("SELECT name FROM sqlite_master WHERE type='table' AND name NOT LIKE 'sqlite_%' AND name NOT LIKE 'refinery%' ORDER BY name")
                .unwrap();
            st.query_map([], |r| r.get::<_, String>(0)).unwrap().filter_map(|x| x.ok()).collect()
        };
        for t in tables {
            let mut st = conn.prepare(&format!("SELECT * FROM {t}")).unwrap();
            let ncol = st.column_count();
            let names: Vec<String> = st.column_names().iter().map(|s| s.to_string()).collect();
            let mut rows = st.query([]).unwrap();
            while let Ok(Some(row)) = rows.next() {
                let mut cells = Vec::new();
                for i in 0..ncol {
                    // wall-clock and autoincrement columns are excluded from dumps
                    let n = names[i].as_str();
                    if n == "processed_at"
                        || n == "last_message_processed_at"
                        || n == "last_self_update_at"
                        || (n == "created_at" && t == "group_state_snapshots")
                        || (n == "id" && (t == "group_relays" || t == "openmls_own_leaf_nodes"))
                    {
                        continue;
                    }
                    let v = row.get_ref(i).unwrap();
                    let s = match v {
                        rusqlite::types::ValueRef::Null => "NULL".to_string(),
                        rusqlite::types::ValueRef::Integer(x) => x.to_string(),
                        rusqlite::types::ValueRef::Real(x) => x.to_string(),
                        rusqlite::types::ValueRef::Text(b) => String::from_utf8_lossy(b).to_string(),
                        rusqlite::types::ValueRef::Blob(b) => hx(b),
                    };
                    cells.push(format!("{n}={s}"));
                }
                out.push(format!("{t}|{}", cells.join("|")));
            }
        }
        out.sort();
        out
    })
}

// ---------------------------------------------------------------------------------------
// Client: one real MDK instance
// ---------------------------------------------------------------------------------------

pub enum Mdk {
    Mem(MDK<MdkMemoryStorage>),
    Sql(MDK<MdkSqliteStorage>, std::sync::Arc<SqlStoreFile>),
}

/// dispatch helper: run the same generic expression on whichever backend is inside
#[macro_export]
macro_rules! with_mdk {
    ($self:expr, $m:ident => $body:expr) => {
        match &$self.mdk {
            $crate::lab::Mdk::Mem($m) => $body,
            $crate::lab::Mdk::Sql($m, _) => $body,
        }
    };
}

pub struct Client {
    pub name: String,
    pub keys: Keys,
    pub mdk: Mdk,
    /// SQLite only: this client's connection was opened on an already existing database file
    /// (it has been restarted at least once); forks keep that kind of connection
    pub reopened: bool,
}

#[derive(Debug, Clone, Serialize, Deserialize, PartialEq, Eq)]
pub struct Cfg {
    pub out_of_order_tolerance: u32,
    pub maximum_forward_distance: u32,
    pub max_past_epochs: usize,
    pub epoch_snapshot_retention: usize,
    pub snapshot_ttl_seconds: u64,
    /// per-group message capacity of the memory backend (None: its default of 10000)
    #[serde(default)]
    pub memory_max_messages_per_group: Option<usize>,
}
impl Default for Cfg {
    fn default() -> Self {
        let d = MdkConfig::default();
        Cfg {
            out_of_order_tolerance: d.out_of_order_tolerance,
            maximum_forward_distance: d.maximum_forward_distance,
            max_past_epochs: d.max_past_epochs,
            epoch_snapshot_retention: d.epoch_snapshot_retention,
            snapshot_ttl_seconds: d.snapshot_ttl_seconds,
            memory_max_messages_per_group: None,
        }
    }
}
impl Cfg {
    pub fn to_mdk(&self) -> MdkConfig {
        let mut c = MdkConfig::default();
        c.out_of_order_tolerance = self.out_of_order_tolerance;
        c.maximum_forward_distance = self.maximum_forward_distance;
        c.max_past_epochs = self.max_past_epochs;
        c.epoch_snapshot_retention = self.epoch_snapshot_retention;
        c.snapshot_ttl_seconds = self.snapshot_ttl_seconds;
        c
    }
}

pub fn relay(s: &str) -> RelayUrl {
    RelayUrl::parse(s).unwrap()
}

impl Client {
    pub fn new(name: &str, backend: Bk, cfg: &Cfg) -> Client {
        Self::with_keys(name, Keys::generate(), backend, cfg)
    }

    pub fn with_keys(name: &str, keys: Keys, backend: Bk, cfg: &Cfg) -> Client {
        let mdk = match backend {
            Bk::Memory => {
                let st = match cfg.memory_max_messages_per_group {
                    Some(n) => MdkMemoryStorage::with_limits(mdk_memory_storage::ValidationLimits::default().with_max_messages_per_group(n)),
                    None => MdkMemoryStorage::default(),
                };
                Mdk::Mem(MDK::builder(st).with_config(cfg.to_mdk()).build())
            }
            Bk::Sqlite => {
                let path = scratch_file(name);
                let st = sqlite_open(&path);
                Mdk::Sql(
                    MDK::builder(st).with_config(cfg.to_mdk()).build(),
                    std::sync::Arc::new(SqlStoreFile { path }),
                )
            }
        };
        Client { name: name.to_string(), keys, mdk, reopened: false }
    }

    pub fn backend(&self) -> Bk {
        match &self.mdk {
            Mdk::Mem(_) => Bk::Memory,
            Mdk::Sql(..) => Bk::Sqlite,
        }
    }

    pub fn pk(&self) -> nostr::PublicKey {
        self.keys.public_key()
    }

    /// Independent copy of the whole client: storage and in-memory snapshot manager.
    pub fn fork(&self) -> Client {
        let mdk = match &self.mdk {
            Mdk::Mem(m) => {
                let st = mem_fork(m.provider.storage());
                Mdk::Mem(m.verif_fork(st))
            }
            Mdk::Sql(m, file) => {
                // A fork stands for "the same process goes on": the copy gets a database that was created by
                // this process (constructor on a new file, migrations applied) and is then filled with the
                // source's rows, so connection-level state is that of a never-reopened database. Only
                // `restart()` reopens an existing file.
                let path = scratch_file(&self.name);
                let st = if self.reopened {
                    std::fs::copy(&file.path, &path).expect("copy sqlite file");
                    sqlite_open(&path)
                } else {
                    let st = sqlite_open(&path);
                    sqlite_copy_rows(&st, &file.path);
                    st
                };
                Mdk::Sql(m.verif_fork(st), std::sync::Arc::new(SqlStoreFile { path }))
            }
        };
        Client { name: self.name.clone(), keys: self.keys.clone(), mdk, reopened: self.reopened }
    }

    /// Process restart: same durable medium, fresh MDK (snapshot manager rebuilt by the code itself).
    /// For the memory backend this is the identity (nothing is durable; not used).
    pub fn restart(&self) -> Client {
        match &self.mdk {
            Mdk::Mem(_) => self.fork(),
            Mdk::Sql(m, file) => {
                let path = scratch_file(&self.name);
                std::fs::copy(&file.path, &path).expect("copy sqlite file");
                let st = sqlite_open(&path);
                let mdk = MDK::builder(st).with_config(m.config.clone()).build();
                Client {
                    name: self.name.clone(),
                    keys: self.keys.clone(),
                    mdk: Mdk::Sql(mdk, std::sync::Arc::new(SqlStoreFile { path })),
                    reopened: true,
                }
            }
        }
    }

    /// Process restart with another configuration (same database file content).
    pub fn restart_with(&self, cfg: &Cfg) -> Client {
        match &self.mdk {
            Mdk::Mem(_) => self.fork(),
            Mdk::Sql(_, file) => {
                let path = scratch_file(&self.name);
                std::fs::copy(&file.path, &path).expect("copy sqlite file");
                let st = sqlite_open(&path);
                let mdk = MDK::builder(st).with_config(cfg.to_mdk()).build();
                Client { name: self.name.clone(), keys: self.keys.clone(), mdk: Mdk::Sql(mdk, std::sync::Arc::new(SqlStoreFile { path })), reopened: true }
            }
        }
    }

    pub fn key_package_event(&self) -> Event {
        let (content, tags, _) = with_mdk!(self, m => m
            .create_key_package_for_event(&self.pk(), vec![relay("wss://kp.example")]))
        .expect("key package");
        EventBuilder::new(Kind::MlsKeyPackage, content).tags(tags).sign_with_keys(&self.keys).unwrap()
    }

    pub fn process(&self, ev: &Event) -> Result<MessageProcessingResult, mdk_core::Error> {
        with_mdk!(self, m => m.process_message(ev))
    }

    pub fn groups(&self) -> Vec<mdk_storage_traits::groups::types::Group> {
        let mut g = with_mdk!(self, m => m.get_groups()).unwrap_or_default();
        g.sort_by(|a, b| a.mls_group_id.as_slice().cmp(b.mls_group_id.as_slice()));
        g
    }

    pub fn dump(&self) -> Vec<String> {
        match &self.mdk {
            Mdk::Mem(m) => m.provider.storage().verif_dump(),
            Mdk::Sql(m, _) => sqlite_dump(m.provider.storage()),
        }
    }

    /// content of a stored rollback snapshot without wall-clock fields
    pub fn snapshot_digest(&self, gid: &GroupId, name: &str) -> String {
        match &self.mdk {
            Mdk::Mem(m) => m.provider.storage().verif_snapshot_digest(gid, name).unwrap_or_default(),
            Mdk::Sql(m, _) => m.provider.storage().verif_with_connection(|conn| {
                let mut out: Vec<String> = Vec::new();
                let mut st = conn.prepare("SELECT table_name, row_key, row_data FROM group_state_snapshots WHERE snapshot_name = ?1 AND group_id = ?2").unwrap();
                let rows = st.query_map(rusqlite::params![name, gid.as_slice()], |r| Ok((r.get::<_, String>(0)?, r.get::<_, Vec<u8>>(1)?, r.get::<_, Vec<u8>>(2)?))).unwrap();
                for r in rows.flatten() {
                    if r.0 == "groups" {
                        // the group row is a JSON tuple; drop last_message_processed_at (index 6) and last_self_update_at (index 12)
                        let v: Value = serde_json::from_slice(&r.2).unwrap_or(Value::Null);
                        let kept: Vec<String> = v.as_array().map(|a| a.iter().enumerate().filter(|(i, _)| *i != 6 && *i != 12).map(|(_, x)| x.to_string()).collect()).unwrap_or_default();
                        out.push(format!("groups|{}", kept.join(",")));
                    } else if r.0 == "openmls_group_data" && String::from_utf8_lossy(&r.1).contains("group_state") {
                        // may hold a pending commit made with fresh randomness: size class only
                        out.push(format!("openmls_group_data|group_state|pending={}", r.2.len() > 64));
                    } else if r.0 == "group_relays" || r.0 == "openmls_own_leaf_nodes" {
                        out.push(format!("{}|{}", r.0, hx(&r.2)));
                    } else {
                        out.push(format!("{}|{}|{}", r.0, hx(&r.1), hx(&r.2)));
                    }
                }
                out.sort();
                out.join(";")
            }),
        }
    }

    pub fn dedup(&self, id: &EventId) -> Option<ProcessedMessage> {
        with_mdk!(self, m => m.provider.storage().find_processed_message_by_event_id(id)).ok().flatten()
    }
}

// ---------------------------------------------------------------------------------------
// Observations
// ---------------------------------------------------------------------------------------

/// The part of a member's view of a group that all members must agree on (C01's "same state").
#[derive(Debug, Clone, PartialEq, Eq, Serialize, Deserialize, Hash, PartialOrd, Ord)]
pub struct GroupCore {
    pub epoch: u64,
    pub authenticator: String,
    pub members: Vec<String>,
    pub ext: String,
}

/// Everything observable about one group on one client
#[derive(Debug, Clone, PartialEq, Eq, Serialize, Deserialize)]
pub struct GroupObs {
    pub gid: String,
    pub record: Value,
    pub record_state: String,
    pub record_epoch: u64,
    pub relays: Vec<String>,
    pub mls: Option<GroupCore>,
    pub mls_error: Option<String>,
    pub own_leaf: bool,
    pub pending_commit: bool,
    pub pending_adds: Vec<String>,
    pub pending_removes: Vec<String>,
    pub proposal_refs: usize,
    pub messages: Vec<Value>,
    pub last_message: Option<String>,
}

pub fn ext_json(e: &NostrGroupDataExtension) -> Value {
    json!({
        "version": e.version,
        "nostr_group_id": hx(&e.nostr_group_id),
        "name": e.name,
        "description": e.description,
        "admins": e.admins.iter().map(|p| p.to_hex()).collect::<Vec<_>>(),
        "relays": e.relays.iter().map(|r| r.to_string()).collect::<Vec<_>>(),
        "image_hash": e.image_hash.map(|h| hx(&h)),
        "image_key": e.image_key.map(|h| hx(&h)),
        "image_nonce": e.image_nonce.map(|h| hx(&h)),
        "image_upload_key": e.image_upload_key.map(|h| hx(&h)),
    })
}

pub fn message_json(m: &mdk_storage_traits::messages::types::Message) -> Value {
    json!({
        "id": m.id.to_hex(),
        "pubkey": m.pubkey.to_hex(),
        "kind": m.kind.as_u16(),
        "created_at": m.created_at.as_secs(),
        "content": m.content,
        "tags": serde_json::to_value(&m.tags).unwrap_or(Value::Null),
        "event_id": m.event.id.map(|i| i.to_hex()),
        "event_pubkey": m.event.pubkey.to_hex(),
        "event_content": m.event.content,
        "wrapper": m.wrapper_event_id.to_hex(),
        "epoch": m.epoch,
        "state": m.state.as_str(),
        "group": hx(m.mls_group_id.as_slice()),
    })
}

impl Client {
    pub fn group_obs(&self, gid: &GroupId) -> Option<GroupObs> {
        with_mdk!(self, m => group_obs_impl(m, gid))
    }

    /// Observable fingerprint of the whole client (all groups + welcomes named by `welcome_ids`)
    pub fn obs(&self, welcome_ids: &[EventId]) -> Value {
        let groups: Vec<Value> = self
            .groups()
            .iter()
            .filter_map(|g| self.group_obs(&g.mls_group_id))
            .map(|g| serde_json::to_value(g).unwrap())
            .collect();
        let pending: Vec<String> = with_mdk!(self, m => m.get_pending_welcomes(None))
            .map(|v| v.iter().map(|w| w.id.to_hex()).collect())
            .unwrap_or_default();
        let welcomes: Vec<Value> = welcome_ids
            .iter()
            .filter_map(|id| with_mdk!(self, m => m.get_welcome(id)).ok().flatten())
            .map(|w| {
                json!({"id": w.id.to_hex(), "state": w.state.as_str(), "group": hx(w.mls_group_id.as_slice()),
                   "nostr_group_id": hx(&w.nostr_group_id), "name": w.group_name, "wrapper": w.wrapper_event_id.to_hex(),
                   "member_count": w.member_count, "welcomer": w.welcomer.to_hex()})
            })
            .collect();
        json!({"groups": groups, "pending_welcomes": pending, "welcomes": welcomes})
    }

    /// Search key = obs + dedup table over `pool_ids` + snapshot queues + exporter-secret epochs
    pub fn key(&self, pool_ids: &[EventId], welcome_ids: &[EventId]) -> Value {
        let obs = self.obs(welcome_ids);
        let dedup: Vec<Value> = pool_ids
            .iter()
            .map(|id| match self.dedup(id) {
                None => Value::Null,
                Some(p) => json!({"s": p.state.as_str(), "e": p.epoch, "g": p.mls_group_id.map(|g| hx(g.as_slice())),
                    "m": p.message_event_id.map(|i| i.to_hex()), "r": p.failure_reason}),
            })
            .collect();
        let mut snaps = Vec::new();
        let mut secrets = Vec::new();
        for g in self.groups() {
            let gid = &g.mls_group_id;
            let q: Vec<Value> = with_mdk!(self, m => m.verif_snapshot_queue(gid))
                .into_iter()
                .map(|e| json!([e.epoch, e.applied_commit_id.to_hex(), e.applied_commit_ts]))
                .collect();
            let mut stored: Vec<String> = with_mdk!(self, m => m.provider.storage().list_group_snapshots(gid))
                .unwrap_or_default()
                .into_iter()
                .map(|(n, _)| n)
                .collect();
            stored.sort();
            // what a rollback to each stored snapshot would restore is part of the state
            let digests: Vec<String> = stored.iter().map(|n| format!("{:016x}", h64(&self.snapshot_digest(gid, n)))).collect();
            snaps.push(json!({"g": hx(gid.as_slice()), "queue": q, "stored": stored, "content": digests}));
            let mut eps = Vec::new();
            for e in 0..(g.epoch + 8) {
                if let Ok(Some(_)) = with_mdk!(self, m => m.provider.storage().get_group_exporter_secret(gid, e)) {
                    eps.push(e);
                }
            }
            secrets.push(json!({"g": hx(gid.as_slice()), "epochs": eps}));
        }
        json!({"obs": obs, "dedup": dedup, "snaps": snaps, "secrets": secrets})
    }
}

fn group_obs_impl<S: MdkStorageProvider>(m: &MDK<S>, gid: &GroupId) -> Option<GroupObs> {
    let g = m.get_group(gid).ok().flatten()?;
    let record = json!({
        "nostr_group_id": hx(&g.nostr_group_id),
        "name": g.name,
        "description": g.description,
        "image_hash": g.image_hash.map(|h| hx(&h)),
        "image_key": g.image_key.as_ref().map(|h| hx(h.as_ref())),
        "image_nonce": g.image_nonce.as_ref().map(|h| hx(h.as_ref())),
        "admins": g.admin_pubkeys.iter().map(|p| p.to_hex()).collect::<Vec<_>>(),
        "epoch": g.epoch,
        "state": g.state.as_str(),
        "self_update": match g.self_update_state { SelfUpdateState::Required => "required", SelfUpdateState::CompletedAt(_) => "completed" },
        "last_message_id": g.last_message_id.map(|i| i.to_hex()),
        "last_message_at": g.last_message_at.map(|t| t.as_secs()),
    });
    let relays: Vec<String> = m.get_relays(gid).map(|r| r.iter().map(|u| u.to_string()).collect()).unwrap_or_else(|e| vec![format!("ERR {e}")]);
    let (mls, mls_error, own_leaf, pending_commit, proposal_refs) = match m.load_mls_group(gid) {
        Ok(Some(grp)) => {
            let ext = NostrGroupDataExtension::from_group(&grp).map(|e| ext_json(&e).to_string()).unwrap_or_else(|e| format!("ERR {e}"));
            let mut members: Vec<String> = grp
                .members()
                .map(|mm| {
                    openmls::prelude::BasicCredential::try_from(mm.credential.clone())
                        .map(|c| hx(c.identity()))
                        .unwrap_or_else(|_| "?".into())
                })
                .collect();
            members.sort();
            let core = GroupCore {
                epoch: grp.epoch().as_u64(),
                authenticator: hx(grp.epoch_authenticator().as_slice()),
                members,
                ext,
            };
            (Some(core), None, grp.own_leaf().is_some(), grp.pending_commit().is_some(), grp.pending_proposals().count())
        }
        Ok(None) => (None, Some("none".to_string()), false, false, 0),
        Err(e) => (None, Some(format!("{e}")), false, false, 0),
    };
    let (pending_adds, pending_removes) = match m.pending_member_changes(gid) {
        Ok(p) => {
            let mut a: Vec<String> = p.additions.iter().map(|k| k.to_hex()).collect();
            let mut r: Vec<String> = p.removals.iter().map(|k| k.to_hex()).collect();
            a.sort();
            r.sort();
            (a, r)
        }
        Err(_) => (vec![], vec![]),
    };
    // a listing that fails is an observation of its own (not an empty list)
    let mut messages: Vec<Value> = match m.get_messages(gid, Some(mdk_storage_traits::groups::Pagination::new(Some(10000), Some(0)))) {
        Ok(v) => v.iter().map(message_json).collect(),
        Err(e) => vec![serde_json::json!({"id": "", "listing_failed": err_variant(&e)})],
    };
    messages.sort_by_key(|v| v["id"].as_str().unwrap_or("").to_string());
    let last_message = m
        .get_last_message(gid, mdk_storage_traits::groups::MessageSortOrder::CreatedAtFirst)
        .ok()
        .flatten()
        .map(|x| x.id.to_hex());
    Some(GroupObs {
        gid: hx(gid.as_slice()),
        record_state: g.state.as_str().to_string(),
        record_epoch: g.epoch,
        record,
        relays,
        mls,
        mls_error,
        own_leaf,
        pending_commit,
        pending_adds,
        pending_removes,
        proposal_refs,
        messages,
        last_message,
    })
}

pub fn is_active(o: &GroupObs) -> bool {
    o.record_state == GroupState::Active.as_str()
}

/// Result kind of a processing call, without identifiers
pub fn result_kind(r: &Result<MessageProcessingResult, mdk_core::Error>) -> String {
    match r {
        Ok(MessageProcessingResult::ApplicationMessage(_)) => "ApplicationMessage".into(),
        Ok(MessageProcessingResult::Proposal(_)) => "Proposal".into(),
        Ok(MessageProcessingResult::PendingProposal { .. }) => "PendingProposal".into(),
        Ok(MessageProcessingResult::IgnoredProposal { .. }) => "IgnoredProposal".into(),
        Ok(MessageProcessingResult::ExternalJoinProposal { .. }) => "ExternalJoinProposal".into(),
        Ok(MessageProcessingResult::Commit { .. }) => "Commit".into(),
        Ok(MessageProcessingResult::Unprocessable { .. }) => "Unprocessable".into(),
        Ok(MessageProcessingResult::PreviouslyFailed) => "PreviouslyFailed".into(),
        Err(e) => format!("Err({})", err_variant(e)),
    }
}

pub fn err_variant(e: &mdk_core::Error) -> String {
    let d = format!("{e:?}");
    d.split(|c: char| c == '(' || c == ' ' || c == '{').next().unwrap_or("?").to_string()
}

pub fn rumor(author: &Keys, content: &str, created_at: u64) -> UnsignedEvent {
    let mut r = EventBuilder::new(Kind::Custom(9), content)
        .custom_created_at(nostr::Timestamp::from_secs(created_at))
        .build(author.public_key());
    r.ensure_id();
    r
}

pub fn now() -> u64 {
    nostr::Timestamp::now().as_secs()
}

pub fn set_of<T: Ord + Clone>(v: &[T]) -> BTreeSet<T> {
    v.iter().cloned().collect()
}
