//! Oracles evaluated on explored per-member graphs (E1).

use serde_json::{Value, json};

use crate::explore::*;
use crate::lab::*;
use crate::report::Report;
use crate::scenario::*;

pub struct Ctx<'a> {
    pub w: &'a World,
    pub g: &'a Graph,
}

pub fn on_spine(w: &World, path: &[usize]) -> bool {
    w.spine.iter().any(|p| p.as_slice() == path)
}

/// abstract class of a pool event relative to the scenario (no ids, no action kind)
pub fn event_class(w: &World, member: &str, i: usize) -> String {
    let p = &w.pool[i];
    let own = if p.author == member { "own" } else { "other" };
    let rel = match p.kind {
        EvKind::Commit => match &p.child {
            Some(c) if on_spine(w, c) => "winner",
            _ if on_spine(w, &p.node) => "loser",
            _ => "offspine",
        },
        _ => {
            if on_spine(w, &p.node) {
                "spine"
            } else {
                "offspine"
            }
        }
    };
    let k = match p.kind {
        EvKind::Commit => "commit",
        EvKind::Proposal => "proposal",
        EvKind::Msg => "msg",
    };
    format!("{k}.{own}.{rel}")
}

pub fn welcome_class(w: &World, member: &str, i: usize) -> String {
    if w.welcomes[i].2 == member { "own-invitation".into() } else { "foreign-invitation".into() }
}

/// what the member did and what happened to it in the scenario (part of every signature)
pub fn member_role(w: &World, member: &str) -> String {
    let mut parts: std::collections::BTreeSet<String> = std::collections::BTreeSet::new();
    for (i, p) in w.pool.iter().enumerate() {
        if p.author == member {
            parts.insert(event_class(w, member, i).replace(".own", ""));
        }
        let rel = |i: usize| event_class(w, member, i).rsplit('.').next().unwrap().to_string();
        match &p.act {
            ActKind::Remove(x) if x.split('+').any(|o| o == member) => {
                parts.insert(format!("removed-by-{}", rel(i)));
            }
            ActKind::Add(x) if x == member => {
                parts.insert(format!("added-by-{}", rel(i)));
            }
            ActKind::CommitLeave(_) => {
                // the leaver is the author of the referenced proposal
                if w.pool.iter().any(|q| q.kind == EvKind::Proposal && q.author == member && q.node == p.node) {
                    parts.insert(format!("left-by-{}", rel(i)));
                }
            }
            _ => {}
        }
    }
    let at = w.initial_node.get(member).map(|p| p.len()).unwrap_or(0);
    if at > 0 {
        parts.insert(format!("starts-at-depth{at}"));
    }
    if parts.is_empty() { "bystander".into() } else { parts.into_iter().collect::<Vec<_>>().join(",") }
}

/// abstract one trace: action classes with the epoch relation at delivery time and result kinds
pub fn abstract_trace(cx: &Ctx, acts: &[Action]) -> String {
    let root_epoch = cx.w.nodes[&vec![]].core.epoch;
    let mut s = 0usize;
    let mut out = Vec::new();
    for a in acts {
        let Some(e) = cx.g.follow(s, *a) else {
            out.push("?".to_string());
            break;
        };
        let step = match a {
            Action::Deliver(i) => {
                let ep = member_epoch(&cx.g.states[s]).saturating_sub(root_epoch);
                let d = cx.w.pool[*i].node.len() as u64;
                let rel = if d < ep {
                    "past"
                } else if d == ep {
                    "cur"
                } else {
                    "future"
                };
                format!("deliver({}@{})->{}", event_class(cx.w, &cx.g.member, *i), rel, e.result)
            }
            Action::MergeOwn => format!("merge_own->{}", e.result),
            Action::ClearPending => format!("clear_pending->{}", e.result),
            Action::Restart => "restart".to_string(),
            Action::Welcome(i) => format!("process_welcome({})->{}", welcome_class(cx.w, &cx.g.member, *i), e.result),
            Action::Accept(i) => format!("accept_welcome({})->{}", welcome_class(cx.w, &cx.g.member, *i), e.result),
            Action::Decline(i) => format!("decline_welcome({})->{}", welcome_class(cx.w, &cx.g.member, *i), e.result),
        };
        out.push(step);
        s = e.target;
    }
    out.join(";")
}

pub fn trace_labels(cx: &Ctx, acts: &[Action]) -> Vec<String> {
    let mut s = 0usize;
    let mut out = Vec::new();
    for a in acts {
        let r = cx.g.follow(s, *a).map(|e| {
            s = e.target;
            e.result.clone()
        });
        out.push(format!("{} -> {}", a.label(cx.w), r.unwrap_or_default()));
    }
    out
}

pub fn detail(cx: &Ctx, acts: &[Action], extra: Value) -> Value {
    json!({
        "scenario": cx.w.sc,
        "backend": format!("{:?}", cx.w.backend),
        "member": cx.g.member,
        "regime": format!("{:?}", cx.g.regime),
        "trace": acts,
        "trace_labels": trace_labels(cx, acts),
        "extra": extra,
    })
}

// ---------------------------------------------------------------------------------------
// C01
// ---------------------------------------------------------------------------------------

#[derive(Debug, Clone, Copy, PartialEq, Eq)]
pub enum Conv {
    Ok,
    Behind,
    Diverged,
    WronglyInactive,
    NotInactive,
    Skip,
}

/// classify one state against the MIP-03 reference of the scenario
pub fn classify(w: &World, member: &str, s: &StateRec) -> Conv {
    let leaf = w.leaf();
    let Some(g) = &s.g else { return Conv::Skip };
    let in_leaf = leaf.members.iter().any(|m| m == member);
    // members of the winning branch only: a client invited on a branch that lost has nothing to converge to
    let ever_on_spine = w.spine.iter().any(|p| w.nodes[p].members.iter().any(|m| m == member));
    if !ever_on_spine {
        return Conv::Skip;
    }
    if !in_leaf {
        // removed somewhere on the spine: must end inactive
        return if g.record_state == "inactive" { Conv::Ok } else { Conv::NotInactive };
    }
    let Some(core) = &g.mls else { return Conv::Diverged };
    if g.record_state != "active" {
        return Conv::WronglyInactive;
    }
    if *core == leaf.core {
        return Conv::Ok;
    }
    // on the spine but earlier?
    if w.spine.iter().any(|p| w.nodes[p].core == *core) {
        return Conv::Behind;
    }
    Conv::Diverged
}

/// Round-robin re-offer of the whole pool, followed on the explored graph, from state `s0`.
/// Returns the quiescent state reached, or None if it does not settle within |pool|+2 rounds.
pub fn settle(cx: &Ctx, s0: usize) -> Option<usize> {
    let g = cx.g;
    let n = cx.w.pool.len();
    let mut s = s0;
    for _round in 0..(n + 2) {
        let before = s;
        // a commit produced while exploring was never published: the environment eventually drops it
        if let Some(e) = g.follow(s, Action::ClearPending) {
            s = e.target;
        }
        for &i in &cx.w.settle_order {
            if let Some(e) = g.follow(s, Action::Deliver(i)) {
                s = e.target;
            }
        }
        if s == before && g.quiescent(s) {
            return Some(s);
        }
    }
    None
}

/// Root-cause oriented description of a stuck quiescent state: which event of the winning branch
/// is the member missing, what does its dedup record say, what does re-delivering it return,
/// is there a rollback snapshot for the fork epoch. No ids, no path.
pub fn diagnose(cx: &Ctx, q: usize) -> String {
    let w = cx.w;
    let g = cx.g;
    let st = &g.states[q];
    let Some(go) = &st.g else { return "no-group".into() };
    let root_epoch = w.nodes[&vec![]].core.epoch;
    let leaf_path = w.spine.last().unwrap().clone();
    let node = go.mls.as_ref().and_then(|c| w.nodes.values().find(|n| n.core.authenticator == c.authenticator && n.core.epoch == c.epoch));
    let mut parts: Vec<String> = Vec::new();
    parts.push(format!("record={}", go.record_state));
    if go.pending_commit {
        parts.push("pending-commit".into());
    }
    let Some(node) = node else {
        parts.push("at-unknown-node".into());
        return parts.join(",");
    };
    // fork point: longest common prefix of the member's node and the spine leaf
    let mut k = 0;
    while k < node.path.len() && k < leaf_path.len() && node.path[k] == leaf_path[k] {
        k += 1;
    }
    let fork = &leaf_path[..k];
    parts.push(format!("off-spine-depth={}", node.path.len() - k));
    // the spine commit the member would need next
    let needed = w.pool.iter().enumerate().find(|(_, p)| p.kind == EvKind::Commit && p.node.as_slice() == fork && p.child.as_ref().map(|c| c.len() == k + 1 && leaf_path.starts_with(c)).unwrap_or(false));
    match needed {
        None => parts.push("needs-nothing".into()),
        Some((i, p)) => {
            let res = g.follow(q, Action::Deliver(i)).map(|e| e.result.clone()).unwrap_or_else(|| "disabled".into());
            let own = if p.author == g.member { "own" } else { "other" };
            parts.push(format!("needs=commit.{own}:dedup={}:redelivery={}", if st.dedup[i].is_empty() { "none" } else { &st.dedup[i] }, res));
            // proposals of that node the commit may depend on
            for (j, pr) in w.pool.iter().enumerate() {
                if pr.kind == EvKind::Proposal && pr.node.as_slice() == fork {
                    parts.push(format!("proposal-dedup={}", if st.dedup[j].is_empty() { "none" } else { &st.dedup[j] }));
                }
            }
            let fork_epoch = root_epoch + k as u64;
            let has_snap = st.snap_queue.iter().any(|(e, _, _)| *e == fork_epoch);
            if node.path.len() > k {
                parts.push(format!("snapshot-at-fork={}", if has_snap { "yes" } else { "no" }));
                // how the member got onto the losing branch: own commit or somebody else's
                let first_off = w.pool.iter().find(|p| p.kind == EvKind::Commit && p.child.as_deref() == Some(&node.path[..k + 1]));
                if let Some(fo) = first_off {
                    parts.push(format!("on-branch-of={}", if fo.author == g.member { "own-commit" } else { "other-commit" }));
                    parts.push(format!("branch-is-better={}", World::better(fo, p)));
                }
            }
        }
    }
    parts.join(",")
}

pub fn check_c01(cx: &Ctx, rep: &mut Report, expect_converge: bool) {
    let g = cx.g;
    let w = cx.w;
    let mut quiescent = 0u64;
    // 1. every quiescent state is classified (safety)
    let class_of = |s: usize| -> Option<&'static str> {
        match classify(w, &g.member, &g.states[s]) {
            Conv::Ok | Conv::Skip => None,
            Conv::Behind => Some("quiescent-behind"),
            Conv::Diverged => Some("quiescent-diverged"),
            Conv::WronglyInactive => Some("quiescent-inactive-but-member"),
            Conv::NotInactive => Some("quiescent-active-but-removed"),
        }
    };
    for s in 0..g.states.len() {
        if g.quiescent(s) {
            quiescent += 1;
            let c = classify(w, &g.member, &g.states[s]);
            rep.outcome(&format!("quiescent:{c:?}"));
            rep.case(&format!("{}|{}|{:?}|{:?}|{}", w.sc.name, g.member, g.regime, c, g.states[s].obs_hash));
        }
    }
    rep.add_count("quiescent_states", quiescent);
    if g.capped {
        return;
    }
    // 2. from every state, re-offering the pool until nothing changes must end in the reference state.
    //    verdict(s) = class of the quiescent state reached from s (None = fine)
    let verdict: Vec<Option<&'static str>> = (0..g.states.len())
        .map(|s| match settle(cx, s) {
            Some(q) => class_of(q),
            None => Some("no-quiescence"),
        })
        .collect();
    let mut seen_sig: std::collections::BTreeSet<String> = std::collections::BTreeSet::new();
    for s in 0..g.states.len() {
        let Some(class) = verdict[s] else { continue };
        if class != "no-quiescence" && !expect_converge {
            continue;
        }
        // only minimal histories: skip when the predecessor already has the same verdict
        if let Some((p, _)) = g.states[s].parent {
            if verdict[p] == Some(class) {
                continue;
            }
        }
        let q = settle(cx, s);
        let mut diag = q.map(|q| diagnose(cx, q)).unwrap_or_else(|| "does-not-settle".into());
        // a member stuck on the branch of its own commit: which way did it apply that commit (merge_pending_commit takes
        // no snapshot - defect D1 -, the echo path does)
        if diag.contains("on-branch-of=own-commit") {
            let path = g.path_to(s);
            let by = if path.iter().any(|a| *a == Action::MergeOwn) {
                "merge"
            } else if path.iter().any(|a| matches!(a, Action::Deliver(i) if w.pool[*i].kind == EvKind::Commit && w.pool[*i].author == g.member)) {
                "echo"
            } else if w.initial_node.get(&g.member).map(|p| p.is_empty()).unwrap_or(true) {
                // the member started at the fork with its commit pending and neither merged it nor saw its echo
                "neither-merge-nor-echo"
            } else {
                "start-state"
            };
            diag.push_str(&format!(",own-commit-applied-by={by}"));
        }
        // a member back on the winning branch whose next commit is blocked by a Failed record: was that commit refused
        // while the member was on a losing branch (a rollback names such events for another try), or on the spine (D2)
        if diag.contains("off-spine-depth=0,needs=commit.") && diag.contains(":dedup=failed:") {
            if let Some(q) = q {
                let leaf_path = w.spine.last().unwrap().clone();
                let at = g.states[q].g.as_ref().and_then(|x| x.mls.as_ref()).and_then(|c| w.nodes.values().find(|n| n.core.authenticator == c.authenticator && n.core.epoch == c.epoch)).map(|n| n.path.len());
                let needed = at.and_then(|k| w.pool.iter().position(|p| p.kind == EvKind::Commit && p.node.as_slice() == &leaf_path[..k.min(leaf_path.len())] && p.child.as_ref().map(|c| c.len() == k + 1 && leaf_path.starts_with(c)).unwrap_or(false)));
                if let Some(i) = needed {
                    let path = g.path_to(s);
                    let mut cur = 0usize;
                    for a in &path {
                        if *a == Action::Deliver(i) {
                            let on_spine_then = g.states[cur].g.as_ref().and_then(|x| x.mls.as_ref()).and_then(|c| w.nodes.values().find(|n| n.core.authenticator == c.authenticator && n.core.epoch == c.epoch)).map(|n| on_spine(w, &n.path)).unwrap_or(true);
                            if !on_spine_then {
                                diag.push_str(",refused-while=on-a-losing-branch");
                            }
                            break;
                        }
                        match g.follow(cur, *a) {
                            Some(e) => cur = e.target,
                            None => break,
                        }
                    }
                }
            }
        }
        let sig = format!("C01|{class}|{:?}|{}", g.regime, diag);
        if !seen_sig.insert(sig.clone()) {
            rep.add_count("violating_histories_same_diagnosis", 1);
            continue;
        }
        let path = g.path_to(s);
        let diag_core = diag.split(",own-commit-applied-by=").next().unwrap_or("").split(",refused-while=").next().unwrap_or("").to_string();
        let pred = |e: usize| verdict[e] == Some(class) && settle(cx, e).map(|q| diagnose(cx, q)).as_deref() == Some(diag_core.as_str());
        let min = g.minimise(&path, &pred);
        let end = g.run(&min).unwrap_or(s);
        let q = settle(cx, end);
        rep.finding(
            sig,
            format!("member {} ({}): after [{}], re-offering every event until nothing changes ends {class}: {diag}", g.member, member_role(w, &g.member), trace_labels(cx, &min).join(" ; ")),
            detail(cx, &min, json!({"class": class, "diagnosis": diag, "abstract_trace": abstract_trace(cx, &min), "role": member_role(w, &g.member), "settled_state": q.and_then(|q| g.states[q].g.as_ref().map(|x| json!({"mls": x.mls, "state": x.record_state}))), "expected": w.leaf().core})),
        );
    }
    // panics are violations of every property that runs the code
    for s in 0..g.states.len() {
        for e in &g.edges[s] {
            if e.panicked {
                let mut path = g.path_to(s);
                path.push(e.action);
                rep.finding(format!("{}|panic|{}", rep.prop, abstract_trace(cx, &path)), "panic while processing".into(), detail(cx, &path, json!({})));
            }
        }
    }
}

// ---------------------------------------------------------------------------------------
// C07: re-delivery of an already effective event is a no-op on obs
// ---------------------------------------------------------------------------------------

/// Has pool event `i` already taken effect in state `s`?
pub fn already_handled(w: &World, g: &Graph, s: usize, i: usize) -> Option<&'static str> {
    let st = &g.states[s];
    let p = &w.pool[i];
    let d = st.dedup[i].as_str();
    let go = st.g.as_ref()?;
    match (p.kind, d) {
        (EvKind::Msg, "created") if p.author == g.member => Some("own-message-first-echo"),
        (EvKind::Msg, "processed") => Some("stored-message"),
        (EvKind::Msg, "epoch_invalidated") => Some("invalidated-message"),
        (EvKind::Proposal, "processed") => Some("handled-proposal"),
        (EvKind::Commit, "processed_commit") => {
            // an own commit still pending has not taken effect yet
            if p.author == g.member && go.pending_commit {
                None
            } else {
                // applied iff the member's current state descends from the commit's child node
                let applied = p.child.as_ref().map(|c| descends(w, go, c)).unwrap_or(false);
                if applied { Some("applied-commit") } else { None }
            }
        }
        (EvKind::Commit, "processed") => Some("eviction-commit"),
        (EvKind::Commit, "failed") => {
            // superseded: a sibling of this commit is on the member's applied path and beats it under MIP-03
            let sib = w.pool.iter().find(|q| q.kind == EvKind::Commit && q.node == p.node && q.label != p.label && q.child.as_ref().map(|c| descends(w, go, c)).unwrap_or(false));
            match sib {
                Some(q) if World::better(q, p) => Some("superseded-commit"),
                _ => None,
            }
        }
        _ => None,
    }
}

/// does the member's current MLS state equal the node `path` or one of its descendants?
fn descends(w: &World, go: &GroupObs, path: &[usize]) -> bool {
    let Some(core) = &go.mls else { return false };
    w.nodes.iter().any(|(p, n)| p.len() >= path.len() && &p[..path.len()] == path && n.core.authenticator == core.authenticator && n.core.epoch == core.epoch)
}

pub fn check_c07(cx: &Ctx, rep: &mut Report) {
    let g = cx.g;
    let w = cx.w;
    for s in 0..g.states.len() {
        for e in &g.edges[s] {
            let Action::Deliver(i) = e.action else { continue };
            let Some(kind) = already_handled(w, g, s, i) else { continue };
            rep.case(&format!("{kind}|{}|{}", event_class(w, &g.member, i), e.result));
            rep.outcome(&format!("{kind}:{}", e.result));
            let mut same = g.states[e.target].obs_hash == g.states[s].obs_hash;
            if !same && kind == "own-message-first-echo" {
                // the one permitted effect: the sender's own copy is confirmed (Created -> Processed)
                same = same_but_confirmation(&g.states[s], &g.states[e.target], w.pool[i].rumor.as_ref().and_then(|r| r.id).map(|x| x.to_hex()));
            }
            if same {
                continue;
            }
            let mut path = g.path_to(s);
            path.push(e.action);
            let what = diff_obs(&g.states[s], &g.states[e.target]);
            // minimise: drop prefix steps while the last step is still an effective duplicate that changes obs
            let last = e.action;
            let pred = |end: usize| -> bool {
                // `end` is the state after the last step; find a predecessor relation by re-running: handled in closure below
                let _ = end;
                true
            };
            let _ = pred;
            let min = minimise_edge(g, w, &path, last, kind);
            let sig = format!("C07|{kind}|{}|{}", what.0, abstract_trace(cx, &min));
            rep.finding(sig, format!("re-delivering an already handled event ({kind}) changed {}: {}", what.0, trace_labels(cx, &min).join(" ; ")), detail(cx, &min, json!({"changed": what.1})));
        }
    }
}

fn same_but_confirmation(a: &StateRec, b: &StateRec, msg_id: Option<String>) -> bool {
    let (Some(x), Some(y), Some(id)) = (&a.g, &b.g, msg_id) else { return false };
    let mut xm = x.clone();
    let mut ym = y.clone();
    for m in xm.messages.iter_mut().chain(ym.messages.iter_mut()) {
        if m["id"].as_str() == Some(id.as_str()) && (m["state"] == "created" || m["state"] == "processed") {
            m["state"] = json!("created-or-processed");
        }
    }
    xm == ym
}

/// shrink a trace whose last step is a duplicate delivery that changes obs
fn minimise_edge(g: &Graph, w: &World, path: &[Action], last: Action, kind: &str) -> Vec<Action> {
    let mut cur: Vec<Action> = path[..path.len() - 1].to_vec();
    let holds = |prefix: &[Action]| -> bool {
        let Some(s) = g.run(prefix) else { return false };
        let Action::Deliver(i) = last else { return false };
        if already_handled(w, g, s, i) != Some(match kind { k => k }) {
            return false;
        }
        match g.follow(s, last) {
            Some(e) => {
                if g.states[e.target].obs_hash == g.states[s].obs_hash {
                    false
                } else if kind == "own-message-first-echo" {
                    !same_but_confirmation(&g.states[s], &g.states[e.target], w.pool[i].rumor.as_ref().and_then(|r| r.id).map(|x| x.to_hex()))
                } else {
                    true
                }
            }
            None => false,
        }
    };
    loop {
        let mut changed = false;
        let mut i = 0;
        while i < cur.len() {
            let mut cand = cur.clone();
            cand.remove(i);
            if holds(&cand) {
                cur = cand;
                changed = true;
                continue;
            }
            i += 1;
        }
        if !changed {
            break;
        }
    }
    cur.push(last);
    cur
}

/// which part of the observable fingerprint differs: (class, detail)
pub fn diff_obs(a: &StateRec, b: &StateRec) -> (String, Value) {
    let (Some(x), Some(y)) = (&a.g, &b.g) else { return ("group-presence".into(), json!(null)) };
    let mut parts = Vec::new();
    if x.mls != y.mls {
        parts.push("mls-state");
    }
    if x.record != y.record {
        parts.push("record");
    }
    if x.relays != y.relays {
        parts.push("relays");
    }
    if x.pending_adds != y.pending_adds || x.pending_removes != y.pending_removes || x.proposal_refs != y.proposal_refs {
        parts.push("pending-proposals");
    }
    if x.pending_commit != y.pending_commit {
        parts.push("pending-commit");
    }
    if x.messages.len() != y.messages.len() {
        parts.push("message-count");
    } else if x.messages != y.messages {
        parts.push("message-content");
    }
    if x.own_leaf != y.own_leaf {
        parts.push("own-leaf");
    }
    if parts.is_empty() {
        parts.push("other");
    }
    (parts.join("+"), json!({"before": {"record": x.record, "mls": x.mls, "messages": x.messages}, "after": {"record": y.record, "mls": y.mls, "messages": y.messages}}))
}

// ---------------------------------------------------------------------------------------
// C08: record mirrors MLS state (state invariant)
// ---------------------------------------------------------------------------------------

pub fn record_mismatch(go: &GroupObs) -> Option<String> {
    if go.record_state != "active" {
        return None;
    }
    let Some(core) = &go.mls else { return Some("active-record-without-mls-group".into()) };
    let ext: Value = serde_json::from_str(&core.ext).unwrap_or(Value::Null);
    let mut bad = Vec::new();
    if go.record_epoch != core.epoch {
        bad.push("epoch");
    }
    for f in ["name", "description", "nostr_group_id", "image_hash", "image_key", "image_nonce", "admins"] {
        if go.record[f] != ext[f] {
            bad.push(f);
        }
    }
    let mut er: Vec<String> = ext["relays"].as_array().map(|a| a.iter().filter_map(|x| x.as_str().map(|s| s.to_string())).collect()).unwrap_or_default();
    er.sort();
    let mut rr = go.relays.clone();
    rr.sort();
    if er != rr {
        bad.push("relays");
    }
    if bad.is_empty() { None } else { Some(bad.join("+")) }
}

pub fn check_c08(cx: &Ctx, rep: &mut Report) {
    let g = cx.g;
    for s in 0..g.states.len() {
        let Some(go) = &g.states[s].g else { continue };
        rep.case(&format!("{}|{:?}|{}", go.record_state, go.mls.as_ref().map(|m| (&m.ext, m.epoch)), go.pending_commit));
        // routing: of all Nostr group ids the group ever carried, exactly the one in force resolves to it
        if go.record_state == "active" {
            let cur = go.record["nostr_group_id"].as_str().unwrap_or("").to_string();
            let routes = &g.states[s].routes;
            if *routes != vec![cur.clone()] {
                let stale: Vec<&String> = routes.iter().filter(|r| **r != cur).collect();
                let class = if routes.is_empty() { "current-id-does-not-resolve".to_string() } else if !stale.is_empty() && routes.contains(&cur) { "an-id-no-longer-in-force-still-resolves".to_string() } else { "only-an-id-no-longer-in-force-resolves".to_string() };
                let path = g.path_to(s);
                let is_bad = |e: usize| -> bool {
                    let Some(x) = &g.states[e].g else { return false };
                    x.record_state == "active" && g.states[e].routes != vec![x.record["nostr_group_id"].as_str().unwrap_or("").to_string()]
                };
                let min = g.minimise(&path, &is_bad);
                rep.finding(format!("C08|routing|{class}|{}", abstract_trace(cx, &min)), format!("after [{}] the ids that resolve to the group are {routes:?}, the id in force is {cur}", trace_labels(cx, &min).join(" ; ")), detail(cx, &min, json!({"routes": routes, "in_force": cur})));
            }
        }
        if let Some(bad) = record_mismatch(go) {
            let path = g.path_to(s);
            let pred = |e: usize| g.states[e].g.as_ref().and_then(record_mismatch).as_deref() == Some(bad.as_str());
            let min = g.minimise(&path, &pred);
            let sig = format!("C08|record-vs-mls:{bad}|{}", abstract_trace(cx, &min));
            let end = g.run(&min).unwrap_or(s);
            rep.finding(sig, format!("stored group record differs from MLS state in {bad} after: {}", trace_labels(cx, &min).join(" ; ")), detail(cx, &min, json!({"record": g.states[end].g.as_ref().map(|x| x.record.clone()), "mls": g.states[end].g.as_ref().map(|x| x.mls.clone()), "relays": g.states[end].g.as_ref().map(|x| x.relays.clone())})));
        }
    }
}

// ---------------------------------------------------------------------------------------
// C20: snapshot retention (state invariant)
// ---------------------------------------------------------------------------------------

pub fn check_c20(cx: &Ctx, rep: &mut Report) {
    let g = cx.g;
    let retention = cx.w.sc.cfg.epoch_snapshot_retention;
    for s in 0..g.states.len() {
        let st = &g.states[s];
        let mut bad: Option<String> = None;
        rep.case(&format!("{}|{}|{}", st.snap_stored.len(), st.snap_queue.len(), member_epoch(st)));
        rep.outcome(&format!("stored={}", st.snap_stored.len()));
        if st.snap_stored.len() > retention {
            bad = Some(format!("stored-count>{retention}"));
        } else if cx.w.backend == Bk::Memory || !st.snap_queue.is_empty() {
            // manager queue (when hydrated) must describe exactly the stored snapshots
            let mut q: Vec<String> = st.snap_queue.iter().map(|(e, id, _)| format!("snap_{}_{}_{}", hx(cx.w.gid.as_slice()), e, id)).collect();
            q.sort();
            if q != st.snap_stored {
                bad = Some("queue-differs-from-stored".into());
            }
        }
        if bad.is_none() {
            // no snapshot at or above the current epoch (superseded snapshots are discarded)
            let ep = member_epoch(st);
            if st.snap_queue.iter().any(|(e, _, _)| *e >= ep) && st.g.as_ref().map(|g| g.own_leaf).unwrap_or(false) {
                bad = Some("snapshot-at-or-above-current-epoch".into());
            }
        }
        if bad.is_none() && st.snap_queue.len() > 1 {
            // kept snapshots are the most recent ones: epochs strictly increasing and contiguous with the current path
            let eps: Vec<u64> = st.snap_queue.iter().map(|x| x.0).collect();
            if eps.windows(2).any(|w| w[1] <= w[0]) {
                bad = Some("queue-not-increasing".into());
            }
        }
        if let Some(b) = bad {
            let path = g.path_to(s);
            let sig = format!("C20|{b}|{}", abstract_trace(cx, &path));
            rep.finding(sig, format!("snapshot bookkeeping violated ({b}) after: {}", trace_labels(cx, &path).join(" ; ")), detail(cx, &path, json!({"stored": st.snap_stored, "queue": st.snap_queue, "retention": retention})));
        }
    }
}

// ---------------------------------------------------------------------------------------
// C14: leaks on transitions
// ---------------------------------------------------------------------------------------

pub fn check_c14(cx: &Ctx, rep: &mut Report) {
    let g = cx.g;
    rep.distinct.extend(g.log_templates.iter().copied());
    rep.evaluations += g.log_records as u64;
    for s in 0..g.states.len() {
        for e in &g.edges[s] {
            for l in &e.leaks {
                let mut path = g.path_to(s);
                path.push(e.action);
                rep.finding(format!("C14|{l}"), format!("sensitive value in log/error/result: {l}"), detail(cx, &path, json!({"leak": l})));
            }
        }
    }
}

// ---------------------------------------------------------------------------------------
// C02: application messages
// ---------------------------------------------------------------------------------------

fn rumor_fields(p: &PoolEvent) -> Option<Value> {
    let r = p.rumor.as_ref()?;
    Some(json!({
        "id": r.id.map(|i| i.to_hex()),
        "pubkey": r.pubkey.to_hex(),
        "kind": r.kind.as_u16(),
        "created_at": r.created_at.as_secs(),
        "content": r.content,
        "tags": serde_json::to_value(&r.tags).unwrap_or(Value::Null),
    }))
}

fn stored_fields(m: &Value) -> Value {
    json!({"id": m["id"], "pubkey": m["pubkey"], "kind": m["kind"], "created_at": m["created_at"], "content": m["content"], "tags": m["tags"]})
}

/// status of pool message `i` in a state: (copies, intact, state)
fn msg_status(w: &World, st: &StateRec, i: usize) -> (usize, bool, String) {
    let p = &w.pool[i];
    let Some(want) = rumor_fields(p) else { return (0, false, String::new()) };
    let Some(g) = &st.g else { return (0, false, String::new()) };
    let copies: Vec<&Value> = g.messages.iter().filter(|m| m["id"] == want["id"] || m["content"] == want["content"]).collect();
    if copies.is_empty() {
        return (0, false, String::new());
    }
    let m = copies[0];
    let intact = stored_fields(m) == want && m["event_id"] == want["id"] && m["event_pubkey"] == want["pubkey"] && m["event_content"] == want["content"];
    (copies.len(), intact, m["state"].as_str().unwrap_or("").to_string())
}

pub fn check_c02(cx: &Ctx, rep: &mut Report) {
    let g = cx.g;
    let w = cx.w;
    let member = &g.member;
    // (a) per edge: a delivered message is returned exactly as its sender created it
    for s in 0..g.states.len() {
        for e in &g.edges[s] {
            let Action::Deliver(i) = e.action else { continue };
            if w.pool[i].kind != EvKind::Msg {
                continue;
            }
            rep.outcome(&format!("deliver-msg:{}", e.result));
            if let Some(m) = &e.msg {
                let want = rumor_fields(&w.pool[i]).unwrap_or(Value::Null);
                rep.case(&format!("edge|{}|{}", event_class(w, member, i), e.result));
                if stored_fields(m) != want {
                    let mut path = g.path_to(s);
                    path.push(e.action);
                    rep.finding(format!("C02|altered-on-delivery|{}", event_class(w, member, i)), "ApplicationMessage result differs from what the sender created".into(), detail(cx, &path, json!({"got": m, "want": want})));
                }
            }
        }
    }
    // (a') forward jumps inside the configured forward distance are accepted, whatever the out-of-order tolerance
    if w.sc.name.starts_with("fwdjump") {
        let fwd = w.sc.cfg.maximum_forward_distance as usize;
        let senders: std::collections::BTreeSet<String> = w.pool.iter().filter(|p| p.kind == EvKind::Msg).map(|p| p.author.clone()).collect();
        for sender in senders {
            if &sender == member {
                continue;
            }
            // generation of a message = its position among the sender's messages of that node (creation order = pool order)
            let mine: Vec<usize> = (0..w.pool.len()).filter(|i| w.pool[*i].kind == EvKind::Msg && w.pool[*i].author == sender).collect();
            for s in 0..g.states.len() {
                let stored: Vec<usize> = mine.iter().enumerate().filter(|(_, i)| msg_status(w, &g.states[s], **i).0 > 0).map(|(gno, _)| gno).collect();
                let next_gen = stored.iter().max().map(|m| m + 1).unwrap_or(0);
                for e in &g.edges[s] {
                    let Action::Deliver(i) = e.action else { continue };
                    let Some(gno) = mine.iter().position(|x| *x == i) else { continue };
                    if gno < next_gen || gno - next_gen + 1 >= fwd {
                        continue;
                    }
                    rep.case(&format!("fwdjump|{}|jump{}", member_role(w, member), gno - next_gen));
                    if e.result != "ApplicationMessage" {
                        let mut path = g.path_to(s);
                        path.push(e.action);
                        rep.finding(
                            format!("C02|forward-jump-refused|{}|jump-within-forward-distance|{}", if w.sc.members.first() == Some(member) { "receiver=group-creator" } else { "receiver=joiner" }, e.result),
                            format!("member {member}: message generation {gno} of {sender} delivered when generations below {next_gen} were stored (jump {}, maximum_forward_distance {fwd}, out_of_order_tolerance {}) -> {}", gno - next_gen, w.sc.cfg.out_of_order_tolerance, e.result),
                            detail(cx, &path, json!({"generation": gno, "stored": stored})),
                        );
                    }
                }
            }
        }
        return;
    }
    if g.capped {
        return;
    }
    // (b) per state, judged on the quiescent state the state settles into
    let verdict = |s: usize| -> Option<(String, usize)> {
        let q = settle(cx, s)?;
        let st = &g.states[q];
        // where there is a fork, a member that does not reach the reference state is C01's business (its messages
        // follow from that); in a history with one branch only there is nothing to select and the messages are judged
        let single_branch = w.nodes.keys().all(|p| on_spine(w, p));
        if classify(w, member, st) != Conv::Ok && !single_branch {
            return None;
        }
        let still_member = w.leaf().members.iter().any(|m| m == member);
        for (i, p) in w.pool.iter().enumerate() {
            if p.kind != EvKind::Msg || p.rumor.is_none() {
                continue; // (a message event the harness forged has no rumor its sender legitimately created)
            }
            let spine_msg = on_spine(w, &p.node);
            let (copies, intact, state) = msg_status(w, st, i);
            if spine_msg {
                let was_member = w.nodes.get(&p.node).map(|n| n.members.iter().any(|m| m == member)).unwrap_or(false);
                if !was_member || !still_member || g.regime != Regime::Causal {
                    continue;
                }
                if copies == 0 {
                    return Some(("lost".into(), i));
                }
                if copies > 1 {
                    return Some(("duplicate".into(), i));
                }
                if !intact {
                    return Some(("altered".into(), i));
                }
                if state != "processed" {
                    return Some((format!("ends-{state}"), i));
                }
            } else if copies > 0 && (state == "processed" || state == "created") {
                return Some(("loser-branch-valid".into(), i));
            }
        }
        None
    };
    let verdicts: Vec<Option<(String, usize)>> = (0..g.states.len()).map(verdict).collect();
    for s in 0..g.states.len() {
        let Some((class, i)) = &verdicts[s] else { continue };
        if let Some((p, _)) = g.states[s].parent {
            if verdicts[p].as_ref() == Some(&(class.clone(), *i)) {
                continue;
            }
        }
        rep.case(&format!("state|{class}|{}", event_class(w, member, *i)));
        let path = g.path_to(s);
        let pred = |e: usize| verdicts[e].as_ref() == Some(&(class.clone(), *i));
        let min = g.minimise(&path, &pred);
        let sender_role = if &w.pool[*i].author == member { "own" } else { "other" };
        // why: the message's dedup record and what offering it again returns in the settled state, and whether
        // its wrapper still carries the Nostr group id the member's record has now (an id rotation in between)
        let why = settle(cx, g.run(&min).unwrap_or(s)).map(|q| {
            let st = &g.states[q];
            let redelivery = g.follow(q, Action::Deliver(*i)).map(|e| e.result.clone()).unwrap_or_else(|| "disabled".into());
            let tag = w.pool[*i].event.tags.iter().find(|t| t.as_slice().first().map(|x| x == "h").unwrap_or(false)).and_then(|t| t.as_slice().get(1).cloned()).unwrap_or_default();
            let cur = st.g.as_ref().and_then(|go| go.record["nostr_group_id"].as_str().map(|x| x.to_string())).unwrap_or_default();
            format!("dedup={}:redelivery={}:h-tag={}", if st.dedup[*i].is_empty() { "none" } else { &st.dedup[*i] }, redelivery, if tag == cur { "current-id" } else { "id-rotated-since" })
        }).unwrap_or_else(|| "unsettled".into());
        let sig = format!("C02|{class}|{:?}|{}|msg.{sender_role}@depth{}|{why}|{}", g.regime, member_role(w, member), w.pool[*i].node.len(), abstract_trace(cx, &min));
        rep.finding(sig, format!("member {member}: message {} ends {class} after [{}] and re-offering everything", w.pool[*i].label, trace_labels(cx, &min).join(" ; ")), detail(cx, &min, json!({"message": w.pool[*i].label, "class": class})));
    }
    for s in 0..g.states.len() {
        if g.quiescent(s) {
            for (i, p) in w.pool.iter().enumerate() {
                if p.kind == EvKind::Msg {
                    let (c, intact, st) = msg_status(w, &g.states[s], i);
                    rep.case(&format!("q|{}|{c}|{intact}|{st}|{:?}", event_class(w, member, i), classify(w, member, &g.states[s])));
                    rep.outcome(&format!("quiescent-msg:{}x{}", if st.is_empty() { "absent" } else { &st }, c));
                }
            }
        }
    }
}

// ---------------------------------------------------------------------------------------
// C03: only members of the sending epoch obtain plaintext
// ---------------------------------------------------------------------------------------

/// C03 on members' own graphs: a member that has settled (every event offered again until nothing changes) does not
/// keep in its MLS roster a user the winning branch has removed - otherwise what it sends next is readable by that user.
pub fn check_c03_roster(cx: &Ctx, rep: &mut Report) {
    let g = cx.g;
    let w = cx.w;
    if g.capped {
        return;
    }
    let leaf = w.leaf();
    if !leaf.members.iter().any(|m| *m == g.member) {
        return;
    }
    let leaf_pks: std::collections::BTreeSet<String> = leaf.members.iter().filter_map(|n| w.pks_by_name.get(n).cloned()).collect();
    let mut seen: std::collections::BTreeSet<String> = Default::default();
    for s in 0..g.states.len() {
        let Some(q) = settle(cx, s) else { continue };
        if let Some((p, _)) = g.states[s].parent {
            if settle(cx, p) == Some(q) {
                continue;
            }
        }
        let Some(core) = g.states[q].g.as_ref().and_then(|x| x.mls.clone()) else { continue };
        let extra: Vec<String> = core.members.iter().filter(|pk| !leaf_pks.contains(*pk)).map(|pk| w.names_by_pk.get(pk).cloned().unwrap_or_else(|| "unknown".into())).collect();
        rep.case(&format!("roster|{}|{}|extra={}", w.sc.name, g.member, extra.len()));
        if extra.is_empty() {
            continue;
        }
        let mut diag = diagnose(cx, q);
        if diag.contains("on-branch-of=own-commit") {
            let path = g.path_to(s);
            let by = if path.iter().any(|a| *a == Action::MergeOwn) {
                "merge"
            } else if path.iter().any(|a| matches!(a, Action::Deliver(i) if w.pool[*i].kind == EvKind::Commit && w.pool[*i].author == g.member)) {
                "echo"
            } else if w.initial_node.get(&g.member).map(|p| p.is_empty()).unwrap_or(true) {
                // the member started at the fork with its commit pending and neither merged it nor saw its echo
                "neither-merge-nor-echo"
            } else {
                "start-state"
            };
            diag.push_str(&format!(",own-commit-applied-by={by}"));
        }
        {
            // histories with a restart: which of the competitors was offered first, and was the restart after it
            let path = g.path_to(s);
            if let Some(r) = path.iter().rposition(|a| *a == Action::Restart) {
                let first = path.iter().position(|a| matches!(a, Action::Deliver(i) if w.pool[*i].kind == EvKind::Commit && w.pool[*i].node.is_empty()));
                let which = first.map(|f| match path[f] { Action::Deliver(i) => event_class(w, &g.member, i).rsplit('.').next().unwrap_or("").to_string(), _ => String::new() }).unwrap_or_else(|| "none".into());
                diag.push_str(&format!(",first-offered={which},restart-after-it={}", first.map(|f| r > f).unwrap_or(false)));
            }
        }
        let sig = format!("C03|removed-user-still-in-roster-after-settling|{:?}|{}", g.regime, diag);
        if !seen.insert(sig.clone()) {
            continue;
        }
        let path = g.path_to(s);
        rep.finding(
            sig,
            format!("member {} ({}): after [{}] and re-offering everything until nothing changes, its MLS roster still holds {extra:?}, removed on the winning branch: what it sends next is readable by them ({diag})", g.member, member_role(w, &g.member), trace_labels(cx, &path).join(" ; ")),
            detail(cx, &path, json!({"still_in_roster": extra, "diagnosis": diag})),
        );
    }
}

pub fn check_c03(cx: &Ctx, rep: &mut Report) {
    let g = cx.g;
    let w = cx.w;
    let me = &g.member;
    for (path, exp, got) in &w.roster_mismatches {
        rep.finding(
            format!("C03|roster-after-operation|expected-{}-got-{}", exp.len(), got.len()),
            format!("after the scripted operations leading to node {path:?} the group's roster is {got:?}, the operations name {exp:?}"),
            json!({"scenario": w.sc, "node": path, "expected": exp, "implementation": got}),
        );
    }
    let removed_on_spine = w.spine.iter().any(|p| w.nodes[p].members.iter().any(|m| m == me)) && !w.leaf().members.iter().any(|m| m == me);
    let was_member_at = |i: usize| -> bool { w.nodes.get(&w.pool[i].node).map(|n| n.members.iter().any(|m| m == me)).unwrap_or(false) };
    let msg_idx: Vec<usize> = (0..w.pool.len()).filter(|i| w.pool[*i].kind == EvKind::Msg).collect();
    let mut reported: std::collections::BTreeSet<String> = Default::default();
    for s in 0..g.states.len() {
        let st = &g.states[s];
        // (a) stored plaintext is a subset of what the observer was entitled to
        let stored: Vec<&Value> = st.g.as_ref().map(|x| x.messages.iter().collect()).unwrap_or_default();
        for i in &msg_idx {
            let want = w.pool[*i].rumor.as_ref().unwrap();
            let has = stored.iter().any(|m| m["content"] == want.content.as_str() || Some(m["id"].as_str().unwrap_or("")) == want.id.map(|x| x.to_hex()).as_deref());
            rep.case(&format!("stored|{}|{}|{}", was_member_at(*i), has, st.g.as_ref().map(|x| x.record_state.clone()).unwrap_or("none".into())));
            if has && !was_member_at(*i) && w.pool[*i].author != *me {
                let class = format!("plaintext-stored|{}", member_role(w, me));
                if reported.insert(class.clone()) {
                    let path = g.path_to(s);
                    rep.finding(format!("C03|{class}|{}", abstract_trace(cx, &path)), format!("observer {me} stores the content of {} although it was not a member in that epoch", w.pool[*i].label), detail(cx, &path, json!({"message": w.pool[*i].label})));
                }
            }
        }
        if st.foreign_msgs > 0 {
            let class = "stored-in-foreign-group".to_string();
            if reported.insert(class.clone()) {
                let path = g.path_to(s);
                rep.finding(format!("C03|{class}|{}", abstract_trace(cx, &path)), format!("observer {me} stored group traffic in an unrelated group"), detail(cx, &path, json!({})));
            }
        }
        // (b) once the own removal is processed the group is inactive: cannot send
        if st.send_ok == Some(true) && st.g.as_ref().map(|x| !x.own_leaf).unwrap_or(false) {
            let class = "send-after-eviction".to_string();
            if reported.insert(class.clone()) {
                let path = g.path_to(s);
                rep.finding(format!("C03|{class}|{}", abstract_trace(cx, &path)), format!("{me} can still create a message in a group that is inactive for it"), detail(cx, &path, json!({})));
            }
        }
        for e in &g.edges[s] {
            // (c) no ApplicationMessage result for a message of an epoch the observer was not in
            if let (Action::Deliver(i), Some(_)) = (e.action, &e.msg) {
                rep.outcome(&format!("appmsg-result:member-at-epoch={}", was_member_at(i)));
                if !was_member_at(i) && w.pool[i].author != *me {
                    let class = format!("plaintext-returned|{}", member_role(w, me));
                    if reported.insert(class.clone()) {
                        let mut path = g.path_to(s);
                        path.push(e.action);
                        rep.finding(format!("C03|{class}|{}", abstract_trace(cx, &path)), format!("observer {me} is handed the plaintext of {}", w.pool[i].label), detail(cx, &path, json!({})));
                    }
                }
            }
            // (d) in a group that is inactive for the observer nothing more is stored
            if let (Some(a), Some(b)) = (&st.g, &g.states[e.target].g) {
                if a.record_state == "inactive" && !a.own_leaf && b.record_state == "inactive" && b.messages.len() > a.messages.len() {
                    let class = "read-after-eviction".to_string();
                    if reported.insert(class.clone()) {
                        let mut path = g.path_to(s);
                        path.push(e.action);
                        rep.finding(format!("C03|{class}|{}", abstract_trace(cx, &path)), format!("{me} stores a message in a group that is inactive for it"), detail(cx, &path, json!({})));
                    }
                }
            }
            // (d2) a client evicted on the winning branch (and never re-invited) does not become active again
            if removed_on_spine {
                if let (Some(a), Some(b)) = (&st.g, &g.states[e.target].g) {
                    if a.record_state == "inactive" && !a.own_leaf && b.record_state != "inactive" {
                        let class = format!("reactivated-after-eviction:{}", b.record_state);
                        let mut path = g.path_to(s);
                        path.push(e.action);
                        let last = abstract_trace(cx, &path).rsplit(';').next().unwrap_or("").to_string();
                        // one report per (resulting state, call that did it): a recorded finding through one call must not hide another call
                        if reported.insert(format!("{class}|{last}")) {
                            rep.finding(format!("C03|{class}|via={last}"), format!("{me} was evicted, yet the group leaves the inactive state again without a new invitation: {}", trace_labels(cx, &path).join(" ; ")), detail(cx, &path, json!({})));
                        }
                    }
                }
            }
            // (e) a welcome that was not accepted never yields an active group / plaintext (also C16)
            if let Some(b) = &g.states[e.target].g {
                if matches!(e.action, Action::Welcome(_)) && b.record_state == "active" && st.g.as_ref().map(|a| a.record_state != "active").unwrap_or(true) {
                    let class = "active-without-accept".to_string();
                    if reported.insert(class.clone()) {
                        let mut path = g.path_to(s);
                        path.push(e.action);
                        rep.finding(format!("C03|{class}|{}", abstract_trace(cx, &path)), format!("processing an invitation alone made the group active for {me}"), detail(cx, &path, json!({})));
                    }
                }
            }
        }
    }
}

// ---------------------------------------------------------------------------------------
// C16: invitations are idempotent, consent-gated and harmless to existing groups
// ---------------------------------------------------------------------------------------

pub fn check_c16(cx: &Ctx, rep: &mut Report) {
    let g = cx.g;
    let w = cx.w;
    let me = &g.member;
    let mut reported: std::collections::BTreeSet<String> = Default::default();
    let rstate = |st: &StateRec| -> String {
        match &st.g {
            None => "not-a-member".into(),
            Some(x) => format!("{}{}", x.record_state, if x.record_state == "inactive" && !x.own_leaf { "-evicted" } else { "" }),
        }
    };
    for s in 0..g.states.len() {
        let st = &g.states[s];
        for e in &g.edges[s] {
            let tg = &g.states[e.target];
            let (act, i) = match e.action {
                Action::Welcome(i) => ("process", i),
                Action::Accept(i) => ("accept", i),
                Action::Decline(i) => ("decline", i),
                _ => {
                    // (2) nothing but accept_welcome makes a group active
                    if rstate(st) != "active" && rstate(tg) == "active" {
                        let class = format!("active-without-accept|via={}", abstract_trace(cx, &[e.action]));
                        if reported.insert(class.clone()) {
                            let mut path = g.path_to(s);
                            path.push(e.action);
                            rep.finding(format!("C16|{class}"), format!("{me}: the group became active without accept_welcome: {}", trace_labels(cx, &path).join(" ; ")), detail(cx, &path, json!({})));
                        }
                    }
                    continue;
                }
            };
            let kind = w.welcome_kinds.get(i).cloned().unwrap_or_else(|| "original".into());
            let own = w.welcomes[i].2 == *me;
            let from = rstate(st);
            rep.case(&format!("{act}|{kind}|own={own}|{from}|{}|{}", e.result, rstate(tg)));
            rep.outcome(&format!("{act}:{kind}:own={own}:{from}->{}:{}", rstate(tg), e.result));
            let mut bad: Vec<String> = Vec::new();
            let same_obs = st.obs_hash == tg.obs_hash;
            if e.panicked {
                bad.push("panic".into());
            }
            // (1) processing the very same invitation again returns the stored welcome and changes nothing
            if act == "process" {
                match st.welcome_dedup.get(i).map(|x| x.as_str()) {
                    Some("processed") => {
                        if e.result != "Welcome" {
                            bad.push("reprocessing-does-not-return-the-stored-welcome".into());
                        }
                        if !same_obs {
                            bad.push("reprocessing-changed-state".into());
                        }
                    }
                    Some("failed") => {
                        if !same_obs {
                            bad.push("failed-invitation-changed-state-on-retry".into());
                        }
                    }
                    _ => {}
                }
                // (2) a merely received invitation never yields an active group
                if from != "active" && rstate(tg) == "active" {
                    bad.push("active-without-accept".into());
                }
                // a failed invitation has no effect at all
                if e.result.starts_with("Err") && !same_obs {
                    bad.push("failed-invitation-changed-state".into());
                }
            }
            if act == "decline" && from != "active" && rstate(tg) == "active" {
                bad.push("declined-invitation-yields-active-group".into());
            }
            // (4) no invitation modifies or disables a group in which the user is already an active member
            if from == "active" {
                let before = st.g.as_ref().unwrap();
                let after = tg.g.as_ref();
                let untouched = after.map(|a| a.mls == before.mls && a.record == before.record && a.relays == before.relays && a.messages == before.messages && a.own_leaf == before.own_leaf).unwrap_or(false);
                if !untouched {
                    bad.push(format!("active-group-disturbed-by-{act}"));
                }
            }
            // (3) accepting a valid invitation puts the joiner in the inviter's post-commit state, with a pending key rotation
            let mut rel = String::new();
            if act == "accept" && e.result == "Ok" && !kind.starts_with("forged") && own {
                if let Some(node) = w.welcome_nodes.get(i).and_then(|p| w.nodes.get(p)) {
                    // is the invitation newer than what the recipient currently holds?
                    let cur = st.g.as_ref().and_then(|x| x.mls.as_ref().map(|m| m.epoch));
                    rel = match cur {
                        None => "|invitation-vs-current=no-current-state".into(),
                        Some(c) if node.core.epoch > c => "|invitation-vs-current=newer".into(),
                        Some(c) if node.core.epoch == c => "|invitation-vs-current=same-epoch".into(),
                        Some(_) => "|invitation-vs-current=older".into(),
                    };
                    match &tg.g {
                        Some(a) if a.record_state == "active" => {
                            if a.mls.as_ref() != Some(&node.core) {
                                bad.push("joiner-state-differs-from-inviter".into());
                            }
                            if a.record["self_update"] != "required" {
                                bad.push("no-pending-key-rotation-after-join".into());
                            }
                            if record_mismatch(a).is_some() {
                                bad.push("joiner-record-differs-from-mls-state".into());
                            }
                        }
                        _ => bad.push("accept-did-not-activate".into()),
                    }
                }
            }
            // (4b) later events of the existing group are processed exactly as without the invitation
            if from == "active" && (act == "process" || act == "decline") && bad.is_empty() {
                for j in 0..w.pool.len() {
                    if let (Some(x), Some(y)) = (g.follow(s, Action::Deliver(j)), g.follow(e.target, Action::Deliver(j))) {
                        if x.result != y.result {
                            bad.push("later-events-processed-differently-after-invitation".into());
                            break;
                        }
                    }
                }
            }
            // a join is "clean" when this invitation is the only one the recipient ever touched on the way here
            let clean_join = act == "accept" && {
                let p = g.path_to(s);
                let others = p.iter().any(|a| matches!(a, Action::Welcome(j) | Action::Accept(j) | Action::Decline(j) if *j != i));
                let processed_once = p.iter().filter(|a| matches!(a, Action::Welcome(j) if *j == i)).count() == 1;
                let no_consent_before = !p.iter().any(|a| matches!(a, Action::Accept(_) | Action::Decline(_)));
                !others && processed_once && no_consent_before && kind == "original"
            };
            // was the existing group's record still the faithful mirror of its MLS state before this step?
            if from == "active" && act == "accept" {
                // the stored invitation still awaits an answer although the group is active: on the unchanged tree processing an
                // invitation for a held group resets the record to pending (defects D6 / D11), so this combination has its own class
                if st.welcome_states.get(i).map(|x| x == "pending").unwrap_or(false) {
                    rel.push_str("|stored-invitation=pending");
                }
            }
            if from == "active" {
                let genuine = st.g.as_ref().and_then(|x| x.mls.as_ref()).map(|m| w.node_of_auth(&m.authenticator).is_some()).unwrap_or(false);
                rel.push_str(if genuine && st.g.as_ref().and_then(record_mismatch).is_none() { "|existing-group-genuine-and-record-intact=yes" } else { "|existing-group-genuine-and-record-intact=no" });
            }
            for b in bad {
                let class = if clean_join { format!("clean-join|{b}|recipient={from}{rel}") } else { format!("{b}|invitation={kind}|own={own}|action={act}|recipient={from}{rel}") };
                if reported.insert(class.clone()) {
                    let mut path = g.path_to(s);
                    path.push(e.action);
                    rep.finding(format!("C16|{class}"), format!("{me}: {b} after [{}]", trace_labels(cx, &path).join(" ; ")), detail(cx, &path, json!({"before": st.g.as_ref().map(|x| json!({"state": x.record_state, "mls": x.mls})), "after": tg.g.as_ref().map(|x| json!({"state": x.record_state, "mls": x.mls, "record": x.record}))})));
                }
            }
        }
    }
}

// ---------------------------------------------------------------------------------------
// C18 (pointer part): the cached last-message pointer designates the head of the valid messages
// ---------------------------------------------------------------------------------------

pub fn pointer_mismatch(go: &GroupObs) -> Option<(Option<String>, Option<String>)> {
    // default order: created_at DESC, then (processed_at is wall clock: scenarios give distinct created_at), id DESC
    let mut valid: Vec<&Value> = go.messages.iter().filter(|m| m["state"] != "epoch_invalidated").collect();
    valid.sort_by(|a, b| (b["created_at"].as_u64(), b["id"].as_str()).cmp(&(a["created_at"].as_u64(), a["id"].as_str())));
    let head = valid.first().and_then(|m| m["id"].as_str()).map(|s| s.to_string());
    let ptr = go.record["last_message_id"].as_str().map(|s| s.to_string());
    if head != ptr { Some((ptr, head)) } else { None }
}

pub fn check_c18_pointer(cx: &Ctx, rep: &mut Report) {
    let g = cx.g;
    let mut seen: std::collections::BTreeSet<String> = Default::default();
    for s in 0..g.states.len() {
        let Some(go) = &g.states[s].g else { continue };
        rep.case(&format!("ptr|{}|{}", go.messages.len(), go.record["last_message_id"].is_null()));
        let Some((ptr, head)) = pointer_mismatch(go) else { continue };
        if std::env::var("VERIF_DEBUG").is_ok() {
            eprintln!("pointer mismatch in state {s} of {}: ptr={ptr:?} head={head:?}", g.member);
        }
        let ptr_state = ptr.as_ref().and_then(|p| go.messages.iter().find(|m| m["id"].as_str() == Some(p.as_str()))).map(|m| m["state"].as_str().unwrap_or("?").to_string()).unwrap_or_else(|| if ptr.is_none() { "none".into() } else { "not-stored".into() });
        let class = format!("pointer-is-{}|head-is-{}", ptr_state, if head.is_some() { "another-message" } else { "nothing" });
        // minimal history: the last step of the shortest path is what broke it
        if let Some((p, _)) = g.states[s].parent {
            if g.states[p].g.as_ref().and_then(pointer_mismatch).is_some() {
                continue;
            }
        }
        let path = g.path_to(s);
        let last = abstract_trace(cx, &path).rsplit(';').next().unwrap_or("").to_string();
        let sig = format!("C18|pointer-not-head-of-valid-messages|{class}|broken-by={last}");
        if seen.insert(sig.clone()) {
            rep.finding(sig, format!("member {}: after [{}] the last-message pointer is {ptr:?} ({ptr_state}) but the first valid message of the default order is {head:?}", g.member, trace_labels(cx, &path).join(" ; ")), detail(cx, &path, json!({"pointer": ptr, "head": head})));
        }
    }
}
