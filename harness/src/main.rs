mod e1;
mod explore;
mod families;
mod lab;
mod logcap;
mod props_e1;
mod replay;
mod report;
mod scenario;

use e1::*;
use report::Report;

fn usage() -> ! {
    eprintln!("usage: mdkv check <C01..C20> <quick|thorough> | mdkv replay <file>");
    std::process::exit(2)
}

fn main() {
    let args: Vec<String> = std::env::args().collect();
    if args.len() < 2 {
        usage();
    }
    // keep panics of the code under test quiet: they are caught and reported as findings
    std::panic::set_hook(Box::new(|_| {}));
    let code = match args[1].as_str() {
        "check" => {
            if args.len() < 4 {
                usage();
            }
            let tier = args[3].as_str();
            match args[2].as_str() {
                "C01" => c01(tier),
                _ => usage(),
            }
        }
        "replay" => {
            if args.len() < 4 {
                usage();
            }
            replay::replay(&args[2], &args[3])
        }
        _ => usage(),
    };
    lab::scratch_cleanup();
    std::process::exit(code);
}

fn c01(tier: &str) -> i32 {
    let mut rep = Report::new("C01", tier, "model_checking");
    rep.rule = "per-member reachable-state graphs (BFS, dedup on search key) over fork-tree scenarios; a case is a quiescent state; distinct = distinct (scenario, member, regime, classification)".into();
    let jobs: Vec<E1Job> = families::c01_quick().into_iter().map(|(s, conv)| { let j = E1Job::new(s); if conv { j } else { j.no_converge() } }).collect();
    run_e1(jobs, &|cx, rep, job| { props_e1::check_c01(cx, rep, job.expect_converge); }, &mut rep);
    rep.finish()
}

pub fn replay_other(_prop: &str, _first: &serde_json::Value) -> i32 {
    0
}
