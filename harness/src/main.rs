mod adversary;
mod c04;
mod c05;
mod c06;
mod c11;
mod c13;
mod c17;
mod c19;
mod crashx;
mod e1;
mod explore;
mod families;
mod lab;
mod logcap;
mod props_e1;
mod replay;
mod report;
mod scenario;
mod sched;
mod scripted;
mod shapes;
mod storex;

use e1::*;
use report::Report;

fn usage() -> ! {
    eprintln!("usage: mdkv check <C01..C20> <quick|thorough> | mdkv replay <file>");
    std::process::exit(2)
}

fn main() {
    let args: Vec<String> = std::env::args().collect();
    if args.len() < 2 {
        usage();
    }
    // keep panics of the code under test quiet: they are caught and reported as findings
    std::panic::set_hook(Box::new(|info| {
        // remember the last panic of the main thread: if it escapes, it is a machinery failure (exit 2), never a verdict
        if std::thread::current().name() == Some("main") {
            *LAST_MAIN_PANIC.lock().unwrap() = Some(format!("{info}"));
        }
        if std::env::var("VERIF_DEBUG").is_ok() {
            eprintln!("panic: {info}");
        }
    }));
    // SQLite keeps global allocation statistics behind one mutex; with 16 worker threads that mutex is the
    // bottleneck of every SQLite-heavy engine. Statistics are not needed here.
    unsafe {
        rusqlite::ffi::sqlite3_config(rusqlite::ffi::SQLITE_CONFIG_MEMSTATUS, 0i32);
    }
    let code = std::panic::catch_unwind(|| run(&args)).unwrap_or_else(|_| {
        eprintln!("MACHINERY-ERROR: the harness itself panicked: {}", LAST_MAIN_PANIC.lock().unwrap().clone().unwrap_or_default());
        2
    });
    std::process::exit(code);
}

static LAST_MAIN_PANIC: std::sync::Mutex<Option<String>> = std::sync::Mutex::new(None);

fn run(args: &[String]) -> i32 {
    let code = match args[1].as_str() {
        "check" => {
            if args.len() < 4 {
                usage();
            }
            let tier = args[3].as_str();
            match args[2].as_str() {
                "C01" => c01(tier),
                "C02" => c02(tier),
                "C03" => c03(tier),
                "C04" => c04check(tier),
                "C05" => c05check(tier),
                "C06" => { let mut rep = Report::new("C06", tier, "exploration"); rep.rule = "valid message / proposal / commit wrappers: outer mutations (kind, h tag variants, created_at boundaries, content empty / non-base64 / every k-th prefix truncation and character change) and inner mutations re-encrypted under the right exporter secret (every k-th truncation and byte change of the MLS payload, header +1, trailing bytes, degenerate payloads; k=1 in thorough), malformed application payloads, each delivered in receiver states {idle, own pending commit, proposal queued, evicted, next epoch} with an unrelated second group present; welcome mutations x recipient states; every string argument of the uniffi API x 40 malformed strings; oracle: no panic, refused => fingerprint of every group unchanged; distinct = distinct (event kind, mutation, state, result)".into(); c06::run(&mut rep, lab::Bk::Memory, tier != "quick"); c06::run(&mut rep, lab::Bk::Sqlite, false); c06::key_package_tags(&mut rep); c06::bindings(&mut rep); rep.transitions = rep.evaluations; rep.finish() }
                "C07" => c07(tier),
                "C08" => c08(tier),
                "C09" => { let mut rep = Report::new("C09", tier, "model_checking"); rep.rule = "every sequence of storage operations up to the tier's depth over the snapshot alphabet (writes inside and outside the snapshot scope on 2 groups, create/rollback/release/prune, 2 names), both backends + reference model compared on every return value and on the whole read surface; distinct = distinct reference-model states".into(); storex::check_c09(&mut rep, tier != "quick"); rep.finish() }
                "C10" => { let mut rep = Report::new("C10", tier, "model_checking"); rep.rule = "every sequence of storage operations up to the tier's depth over four colliding alphabets (groups/relays/secrets, messages, dedup records and welcomes, snapshots + OpenMLS writes); memory, SQLite and a plain reference model compared on every return value and on every read method with every pagination triple; distinct = distinct reference-model states".into(); storex::check_c10(&mut rep, tier != "quick"); rep.finish() }
                "C17" => { let mut rep = Report::new("C17", tier, "exploration"); rep.rule = "payload sizes {0,1,15,16,17,63,64,65 (+64 KiB+-1, 1 MiB)} x MIME families x spellings: round trip for sender and other member, Err for non-member and other group; for sizes <= 65 every single-bit flip of ciphertext and nonce and every single-field change of name / MIME / hash / scheme version must fail; all pairs of (file, name, type, group) keys differ; group image v2 with every bit of ciphertext, nonce and seed flipped, v1 round trip; history: decryption 0..k epochs later x announcing message processed after every possible number of intervening commits".into(); c17::run(&mut rep, lab::Bk::Memory, tier != "quick"); if tier != "quick" { c17::run(&mut rep, lab::Bk::Sqlite, false); } rep.transitions = rep.evaluations; rep.finish() }
                "C18" => { let mut rep = Report::new("C18", tier, "model_checking"); rep.rule = "message alphabet with ties on created_at and processed_at: every sequence up to the tier's depth, listings in both sort orders with every (limit, offset) compared with the documented total order; every store/invalidate sequence through update_last_message_if_newer checked for pointer == head of valid messages".into(); storex::check_c18(&mut rep, tier != "quick");
                    let mut jobs = jobs_from(if tier == "quick" { families::c02_quick() } else { families::c02_thorough() });
                    if tier != "quick" { jobs.extend(jobs_from(families::c02_quick()).into_iter().map(|j| j.backend(lab::Bk::Sqlite))); }
                    run_e1(jobs, &|cx, rep, _| props_e1::check_c18_pointer(cx, rep), &mut rep);
                    scripted::c18_own_messages_pointer(&mut rep, lab::Bk::Memory);
                    scripted::c18_own_messages_pointer(&mut rep, lab::Bk::Sqlite);
                    rep.finish() }
                "C11" => c11check(tier),
                "C12" => { let mut rep = Report::new("C12", tier, "fault_enumeration"); rep.rule = "histories on SQLite (application message, proposal, commit, commit with rollback + relay replacement, own create_message / self_update / merge_pending_commit, process + accept welcome); for every API call and every storage tick k of it a child process replays the earlier calls, runs the call and dies by abort() at tick k; the parent reopens the file, loads every group, checks the relay set is the old or the new one, re-offers the interrupted call and all later ones and compares with the uninterrupted run; distinct = distinct (history, call, tick label, k)".into(); crashx::check_c12(&mut rep, tier != "quick"); rep.finish() }
                "C19" => { let mut rep = Report::new("C19", tier, "model_checking"); rep.rule = "for every program set (2..3 threads, 1..3 single storage calls each, over three colliding alphabets: groups/relays/secrets, snapshots/MLS state, messages/dedup) on each backend: depth-first over every schedule of the controlled scheduler (schedule points = every lock acquisition of the backend), one real execution per schedule; states = program sets, transitions = scheduling decisions, evaluations = schedules; distinct = program sets with more than one observable outcome".into(); c19::check_c19(&mut rep, tier != "quick"); rep.finish() }
                "C13" => { let mut rep = Report::new("C13", tier, "model_checking"); rep.rule = "A: every sequence of constructor calls (5 constructors x 2 paths, depth 2 quick / 3 thorough) from 6 initial file states against a reference model of the documented rules, with at-rest, keyring and mode checks after every call; C: 2..3 threads calling constructors on one path under the controlled scheduler, every schedule up to a preemption bound; B: a scripted history with planted canaries on an encrypted database (messages, a 32/57 KB message (NIP-44 caps a payload at 64 KB), commit race with rollback, own commit), every file of the database and temp directories scanned for 16+ needles after every call, at every storage tick inside every call, and after a process death at every storage tick; states = sequences + configurations + calls, evaluations = constructor calls + schedules + scans; distinct = distinct (constructor, file state, keyring state) cells and crash points".into(); c13::matrix(&mut rep, if tier == "quick" { 2 } else { 3 }, 0o022); for um in [0o007u32, 0o027, 0o077, 0o000] { c13::matrix(&mut rep, if tier == "quick" && um != 0o007 { 1 } else { 2 }, um); } c13::matrix_odd_names(&mut rep, if tier == "quick" { 1 } else { 2 }); c13::concurrent_opens(&mut rep, tier != "quick"); c13::at_rest(&mut rep, tier != "quick"); rep.finish() }
                "C14" => c14(tier),
                "C15" => { let mut rep = Report::new("C15", tier, "exploration"); rep.rule = "group-data extension: every value of name/description {empty, ASCII, 2-, 3-, 4-byte UTF-8, NUL inside, 255 B} x 0..3 admins x 4 relay sets x 16 presence patterns of the image fields x versions {1,2,3,65535} round-trips; every prefix truncation, appended suffix, wrong fixed length, version 0, invalid UTF-8 / URL is refused; key-package events, welcome rumors, imeta tags: round trip through the public create/parse pair and every single-field mutation refused; distinct = distinct (family, shape)".into(); shapes::check_c15(&mut rep, tier != "quick"); rep.finish() }
                "C16" => c16check(tier),
                "C20" => c20(tier),
                _ => usage(),
            }
        }
        "bench" => { bench_storex(); 0 }
        "crash-child" => crashx::child(&args[2..]),
        "trace" => {
            // mdkv trace <scenario-name> <member> <pool indices / m / c / r ...>  (debugging aid)
            let mut all = families::c01_thorough();
            all.extend(families::c11_extra());
            all.extend(families::c08_quick());
            all.extend(families::c02_thorough());
            all.extend(families::c08_quick());
            all.extend(families::c03_quick());
            let sc = all.into_iter().find(|(s, _)| s.name == args[2]).expect("scenario").0;
            let bk = if std::env::var("VERIF_SQLITE").is_ok() { lab::Bk::Sqlite } else { lab::Bk::Memory };
            let w = scenario::build_world(&sc, bk).expect("world");
            for (i, p) in w.pool.iter().enumerate() {
                println!("pool[{i}] {} ts={} node={:?}", p.label, p.ts, p.node);
            }
            let mut c = w.initial[&args[3]].fork();
            for a in &args[4..] {
                let act = match a.as_str() {
                    "m" => explore::Action::MergeOwn,
                    "c" => explore::Action::ClearPending,
                    "r" => explore::Action::Restart,
                    x => explore::Action::Deliver(x.parse().unwrap()),
                };
                let out = explore::step(&w, &c, act);
                c = out.client;
                let g = c.group_obs(&w.gid);
                println!("{} -> {}", act.label(&w), out.result);
                if let Some(g) = g {
                    println!("   pointer_mismatch={:?}", props_e1::pointer_mismatch(&g));
                    println!("   epoch={:?} state={} pending={} ptr={} msgs={:?}", g.mls.as_ref().map(|m| m.epoch), g.record_state, g.pending_commit, g.record["last_message_id"], g.messages.iter().map(|m| format!("{}:{}:e{}", m["content"].as_str().unwrap_or(""), m["state"].as_str().unwrap_or(""), m["epoch"])).collect::<Vec<_>>());
                }
            }
            0
        }
        "replay" => {
            if args.len() < 4 {
                usage();
            }
            replay::replay(&args[2], &args[3])
        }
        _ => usage(),
    };
    lab::scratch_cleanup();
    code
}

fn c01(tier: &str) -> i32 {
    let mut rep = Report::new("C01", tier, "model_checking");
    rep.rule = "per-member reachable-state graphs (BFS, dedup on search key) over fork-tree scenarios; a case is a quiescent state; distinct = distinct (scenario, member, regime, classification)".into();
    let mut jobs: Vec<E1Job> = if tier == "quick" { jobs_from(families::c01_quick()) } else { jobs_from(families::c01_thorough()) };
    if tier != "quick" {
        // both backends in the thorough tier: the quick scenarios, chains and leaves again on SQLite
        let mut sq = families::c01_quick();
        sq.extend(families::chains(2, 5));
        sq.extend(families::leaves());
        jobs.extend(jobs_from(sq).into_iter().map(|j| j.backend(lab::Bk::Sqlite)));
    }
    // a fork as deep as the default retention, and the leave races on SQLite (rollback restores queued proposals there row by row)
    for d in if tier == "quick" { vec![5usize] } else { vec![4, 5] } {
        for bk in if tier == "quick" { vec![lab::Bk::Memory] } else { vec![lab::Bk::Memory, lab::Bk::Sqlite] } {
            let mut j = E1Job::new(families::deep_fork(d)).backend(bk);
            j.regimes = vec![explore::Regime::Causal];
            j.members = Some(vec!["Z".into(), "A".into()]);
            jobs.push(j);
        }
    }
    if tier == "quick" {
        for (sc, conv) in families::leaves() {
            if sc.name == "leave-two-autocommits" || sc.name == "leave-autocommit-vs-rename-o1" {
                let mut j = E1Job::new(sc).backend(lab::Bk::Sqlite);
                if !conv {
                    j = j.no_converge();
                }
                j.regimes = vec![explore::Regime::Causal];
                jobs.push(j);
            }
        }
    }
    if tier == "quick" {
        // a two-commit winning branch whose second commit reaches a SQLite bystander first (any order): what the rollback
        // names for re-fetching comes out of the SQLite retry query
        if let Some((sc, conv)) = families::chains(2, 5).into_iter().find(|(s, _)| s.name.starts_with("chain2-w0-l1-o0")) {
            let mut j = E1Job::new(sc).backend(lab::Bk::Sqlite);
            if !conv {
                j = j.no_converge();
            }
            j.regimes = vec![explore::Regime::Unrestricted];
            j.members = Some(vec!["Z".into()]);
            j.with_local_ops = false;
            jobs.push(j);
        }
    }
    rep.add_count("scenario_descriptions", jobs.len() as u64);
    run_e1(jobs, &|cx, rep, job| { props_e1::check_c01(cx, rep, job.expect_converge); }, &mut rep);
    // the same scenarios on one unforked SQLite connection each (canonical order, until nothing changes)
    {
        let mut v = families::c01_quick();
        v.extend(families::leaves());
        v.extend(families::c08_quick());
        if tier != "quick" {
            v.extend(families::chains(2, 5));
            v.extend(families::c11_extra());
        }
        let next = std::sync::atomic::AtomicUsize::new(0);
        let out: std::sync::Mutex<Vec<Report>> = std::sync::Mutex::new(Vec::new());
        std::thread::scope(|sc| {
            for _ in 0..threads() {
                sc.spawn(|| loop {
                    let i = next.fetch_add(1, std::sync::atomic::Ordering::SeqCst);
                    if i >= v.len() {
                        break;
                    }
                    if !v[i].1 {
                        continue;
                    }
                    let mut r = Report::new("C01", tier, "model_checking");
                    if let Ok(w) = scenario::build_world(&v[i].0, lab::Bk::Sqlite) {
                        for m in w.initial.keys().cloned().collect::<Vec<_>>() {
                            // members whose start state the generator produced by merging their own commit sit on a
                            // branch without a snapshot (defect D1, judged on the graphs): only root starters here
                            if w.sc.members.contains(&m) && w.initial_node.get(&m).map(|p| p.is_empty()).unwrap_or(false) {
                                c11::unforked_convergence(&w, &m, &mut r);
                            }
                        }
                    }
                    out.lock().unwrap().push(r);
                });
            }
        });
        for r in out.into_inner().unwrap() {
            rep.merge(r);
        }
    }
    rep.finish()
}

pub fn replay_other(_prop: &str, _first: &serde_json::Value) -> i32 {
    0
}

fn jobs_from(v: Vec<(scenario::Scenario, bool)>) -> Vec<E1Job> {
    v.into_iter().map(|(s, conv)| { let j = E1Job::new(s); if conv { j } else { j.no_converge() } }).collect()
}

/// a commit the group refuses (non-admin C renames the group at the root epoch, built directly with OpenMLS), published
/// with a later timestamp than every scripted commit: every property of the graphs must hold with it in the pool
fn hostile_commit_hook(w: &mut scenario::World) {
    let Some(c) = w.nodes.get(&vec![]).and_then(|n| n.clients.get("C")).map(|c| c.fork()) else { return };
    let pks = w.pks_by_name.clone();
    let pk_of = move |n: &str| pks.get(n).and_then(|h| nostr::PublicKey::from_hex(h).ok());
    if let Ok(ev) = adversary::raw_commit(&c, &w.gid, &adversary::CommitContent::Rename("hostile".into()), &pk_of, None, w.base_ts + 900) {
        w.pool.push(scenario::PoolEvent { label: "n.C.hostile-rename".into(), event: ev, kind: scenario::EvKind::Commit, act: scenario::ActKind::Rename("hostile".into()), author: "C".into(), node: vec![], child: None, ts: 900, rumor: None });
        let idx = w.pool.len() - 1;
        w.settle_order.push(idx);
    }
}

/// an admin's commit whose group-data extension cannot be decoded (image key of 5 bytes), built directly with OpenMLS by an
/// admin that has no event of its own at the root; published with a later timestamp than every scripted commit
fn undecodable_group_data_hook(w: &mut scenario::World) {
    let Some(admin) = w.sc.admins.iter().find(|a| !w.pool.iter().any(|p| p.node.is_empty() && &p.author == *a)).cloned() else { return };
    let Some(c) = w.nodes.get(&vec![]).and_then(|n| n.clients.get(&admin)).map(|c| c.fork()) else { return };
    let gid = w.gid.clone();
    let Some(base_ext) = with_mdk!(c, m => m.load_mls_group(&gid)).ok().flatten().and_then(|g| mdk_core::extension::NostrGroupDataExtension::from_group(&g).ok()) else { return };
    let mut raw = shapes::RawExt::of(&base_ext);
    raw.image_key = vec![1u8; 5];
    let pks = w.pks_by_name.clone();
    let pk_of = move |n: &str| pks.get(n).and_then(|h| nostr::PublicKey::from_hex(h).ok());
    if let Ok(ev) = adversary::raw_commit(&c, &gid, &adversary::CommitContent::RawGroupData(raw.encode()), &pk_of, None, w.base_ts + 900) {
        w.pool.push(scenario::PoolEvent { label: format!("n.{admin}.commit-with-undecodable-group-data"), event: ev, kind: scenario::EvKind::Commit, act: scenario::ActKind::Rename("undecodable".into()), author: admin, node: vec![], child: None, ts: 900, rumor: None });
        let idx = w.pool.len() - 1;
        w.settle_order.push(idx);
    }
}

fn c07(tier: &str) -> i32 {
    let mut rep = Report::new("C07", tier, "model_checking");
    rep.rule = "every edge deliver(e) of every explored graph where e has already taken effect in the source state (stored message, applied/superseded commit, queued proposal, invalidated message, own echo already confirmed); distinct = distinct (handled-kind, event class, result)".into();
    let mut v = families::c01_quick();
    v.extend(families::c02_quick());
    if tier != "quick" {
        v.extend(families::c02_thorough());
        v.extend(families::chains(2, 5));
        v.extend(families::leaves());
        v.extend(families::one_round(&["A", "B", "C", "Z"], &["A", "B"], 2, false));
    }
    let mut jobs = jobs_from(v);
    if tier == "quick" {
        // a queued proposal offered again after the commit that covers it has been applied (and a message of the new epoch stored)
        use scenario::{ActKind, act};
        let sc = families::base("late-proposal-after-commit-and-message", &["A", "B", "C", "Z"], &["A", "B"], &[], vec![act("C", ActKind::Leave, 5), act("A", ActKind::CommitLeave("C.leave0".into()), 10).then(vec![act("A", ActKind::Msg("after-the-leave".into()), 20)])]);
        let mut j = E1Job::new(sc);
        j.regimes = vec![explore::Regime::Causal];
        j.members = Some(vec!["Z".into()]);
        jobs.push(j);
    }
    if tier != "quick" {
        let mut sq = families::c01_quick();
        sq.extend(families::c02_quick());
        jobs.extend(jobs_from(sq).into_iter().map(|j| j.backend(lab::Bk::Sqlite)));
    }
    // "at any later point" past every window the client keeps: a message and a commit handled at the first epoch are offered again
    // after each of eight further commits (exporter secrets are kept for the current and five past epochs, snapshots for five
    // commits), when the wrapper can no longer be opened or the snapshot to compare with is gone
    {
        use scenario::{ActKind, act};
        let mut tail = act("A", ActKind::Rename("n8".into()), 90);
        for k in (1..8u64).rev() {
            tail = act(if k % 2 == 0 { "B" } else { "A" }, ActKind::Rename(format!("n{k}")), 10 + 10 * k).then(vec![tail]);
        }
        let sc = families::base("redelivery-past-every-window", &["A", "B", "C", "Z"], &["A", "B"], &[], vec![act("C", ActKind::Msg("old".into()), 5), act("Z", ActKind::Msg("own-old".into()), 6), tail]);
        for bk in if tier == "quick" { vec![lab::Bk::Memory] } else { vec![lab::Bk::Memory, lab::Bk::Sqlite] } {
            let mut j = E1Job::new(sc.clone()).backend(bk);
            j.regimes = vec![explore::Regime::Causal];
            j.with_local_ops = false;
            j.members = Some(vec!["Z".into()]);
            jobs.push(j);
        }
    }
    // restarts between the deliveries (SQLite): an event handled before the restart is still "already handled" after it
    for (sc, _) in families::c01_quick().into_iter().take(if tier == "quick" { 1 } else { 4 }) {
        let mut j = E1Job::new(sc).backend(lab::Bk::Sqlite);
        j.regimes = vec![explore::Regime::Causal];
        j.with_restart = true;
        j.with_local_ops = false;
        j.members = Some(vec!["Z".into()]);
        jobs.push(j);
    }
    // a follow-up commit whose wrapper is older than its predecessor's (sender clock behind), and one that ties with it and
    // has the smaller id: re-delivering it must not make it look like a better competitor of its predecessor
    {
        use scenario::{ActKind, act};
        for (name, ts2, nib1, nib2) in [("skewed-clock-follow-up", 10u64, None, None), ("tied-follow-up-smaller-id", 20u64, Some(9u8), Some(1u8))] {
            let mut first = act("B", ActKind::Rename("first".into()), 20);
            let mut second = act("A", ActKind::Rename("follow-up".into()), ts2);
            if let (Some(a), Some(b)) = (nib1, nib2) {
                first = first.nib(a);
                second = second.nib(b);
            }
            let sc = families::base(name, &["A", "B", "Z"], &["A", "B"], &[], vec![first.then(vec![second])]);
            let mut j = E1Job::new(sc);
            j.regimes = vec![explore::Regime::Causal];
            jobs.push(j);
        }
    }
    // the memory backend at its per-group message capacity: confirming an own message (a re-save) evicts nothing
    {
        use scenario::{ActKind, act};
        let mut sc = families::base("at-message-capacity", &["A", "B", "Z"], &["A"], &[], vec![act("B", ActKind::Msg("older-1".into()), 5), act("B", ActKind::Msg("older-2".into()), 5), act("Z", ActKind::Msg("own-newest".into()), 5)]);
        sc.cfg.memory_max_messages_per_group = Some(3);
        let mut j = E1Job::new(sc);
        j.regimes = vec![explore::Regime::Causal];
        j.members = Some(vec!["Z".into()]);
        jobs.push(j);
    }
    // a refused commit in the pool: what it left behind must not change how the applied commit is treated later
    for (sc, _) in families::c01_quick().into_iter().take(if tier == "quick" { 2 } else { 6 }) {
        let mut j = E1Job::new(sc);
        j.regimes = vec![explore::Regime::Causal];
        j.world_hook = Some(hostile_commit_hook);
        j.members = Some(vec!["Z".into(), "B".into()]);
        jobs.push(j);
    }
    run_e1(jobs, &|cx, rep, _| props_e1::check_c07(cx, rep), &mut rep);
    // sender role, every stored field (the processing time is wall-clock and therefore not part of the graphs' observation)
    scripted::c07_own_echo_fields(&mut rep, lab::Bk::Memory);
    scripted::c07_own_echo_fields(&mut rep, lab::Bk::Sqlite);
    rep.finish()
}

fn c08(tier: &str) -> i32 {
    let mut rep = Report::new("C08", tier, "model_checking");
    rep.rule = "state invariant on every state of every explored graph: stored record == MLS extension/epoch, relays == extension relays; distinct = distinct (record state, extension, epoch, pending flag)".into();
    let mut v = families::c08_quick();
    v.extend(families::c01_quick());
    if tier != "quick" {
        v.extend(families::one_round(&["A", "B", "C", "Z"], &["A", "B"], 2, false));
        v.extend(families::chains(2, 5));
        v.extend(families::chains(3, 3));
        v.extend(families::leaves());
    }
    let mut jobs = jobs_from(v);
    // the group-data scenarios also on SQLite (the record is a row there, written column by column)
    let mut sq = families::c08_quick();
    if tier != "quick" {
        sq.extend(families::c01_quick());
    }
    jobs.extend(jobs_from(sq).into_iter().map(|j| j.backend(lab::Bk::Sqlite)));
    // the Nostr id is rotated on a branch that loses; the winner reaches the member in a wrapper that carries the rotated id
    // (under the old id it would no longer be routed): after the rollback only the id in force resolves to the group
    {
        fn rewrapped_winner_hook(w: &mut scenario::World) {
            let Some(win) = w.pool.iter().position(|p| p.kind == scenario::EvKind::Commit && p.node.is_empty() && p.child.as_ref().map(|c| w.spine.contains(c)).unwrap_or(false)) else { return };
            // the id in force on the losing branch
            let rotated: Option<[u8; 32]> = w.nodes.iter().filter(|(p, _)| p.len() == 1 && !w.spine.contains(*p)).filter_map(|(_, n)| n.record["nostr_group_id"].as_str().and_then(|h| hex::decode(h).ok()).and_then(|b| b.try_into().ok())).next();
            let Some(y) = rotated else { return };
            let src = w.pool[win].clone();
            if let Ok(ev) = adversary::wrapper_with_content(&src.event.content, y, src.event.created_at.as_secs() - 1) {
                w.pool.push(scenario::PoolEvent { label: format!("{}-rewrapped-under-the-rotated-id", src.label), event: ev, kind: scenario::EvKind::Commit, act: src.act.clone(), author: src.author.clone(), node: vec![], child: src.child.clone(), ts: src.ts, rumor: None });
                let idx = w.pool.len() - 1;
                w.settle_order.push(idx);
            }
        }
        for (sc, _) in families::c08_quick().into_iter().filter(|(s, _)| s.name == "rotate-loses") {
            for bk in [lab::Bk::Memory, lab::Bk::Sqlite] {
                let mut j = E1Job::new(sc.clone()).backend(bk);
                j.regimes = vec![explore::Regime::Causal];
                j.world_hook = Some(rewrapped_winner_hook);
                j.members = Some(vec!["Z".into(), "C".into()]);
                jobs.push(j);
            }
        }
    }
    // an admin's commit whose group-data extension cannot be decoded (built directly with OpenMLS) is in the pool next to the
    // scripted history: in every state it is offered in, record and MLS state still agree afterwards
    {
        for (sc, _) in families::c08_quick().into_iter().filter(|(s, _)| s.name == "image-set-clear") {
            for bk in [lab::Bk::Memory, lab::Bk::Sqlite] {
                let mut j = E1Job::new(sc.clone()).backend(bk);
                j.regimes = vec![explore::Regime::Causal];
                j.world_hook = Some(undecodable_group_data_hook);
                j.members = Some(vec!["Z".into(), "A".into()]);
                jobs.push(j);
            }
        }
    }
    // a member is removed, the group is renamed and its Nostr id rotated while it is away, then it is invited again:
    // the record it ends with must mirror the MLS state it joined
    {
        use scenario::{ActKind, act};
        let sc = families::base(
            "rejoin-after-changes",
            &["A", "B", "C", "Z"],
            &["A", "B"],
            &[],
            vec![act("A", ActKind::Remove("C".into()), 10).then(vec![act("A", ActKind::Rename("while-away".into()), 20).then(vec![act("A", ActKind::RotateId(0xD7), 30).then(vec![act("A", ActKind::Add("C".into()), 40).then(vec![act("Z", ActKind::Msg("welcome-back".into()), 5)])])])])],
        );
        for bk in if tier == "quick" { vec![lab::Bk::Memory] } else { vec![lab::Bk::Memory, lab::Bk::Sqlite] } {
            let mut j = E1Job::new(sc.clone()).backend(bk);
            j.regimes = vec![explore::Regime::Causal];
            j.members = Some(vec!["C".into()]);
            j.with_welcomes = true;
            j.welcome_consent = 1;
            j.with_local_ops = false;
            j.prejoin = true;
            j.rejoin = true;
            j.max_states = 4000;
            jobs.push(j);
        }
    }
    run_e1(jobs, &|cx, rep, _| props_e1::check_c08(cx, rep), &mut rep);
    // routing between two groups of one member when an id given up by one group is taken by the other
    c04::two_group_routing(&mut rep, lab::Bk::Memory);
    c04::two_group_routing(&mut rep, lab::Bk::Sqlite);
    rep.finish()
}

fn c14(tier: &str) -> i32 {
    let mut rep = Report::new("C14", tier, "model_checking");
    rep.rule = "every tracing record (TRACE and up), every Err (Display+Debug) and every result Debug on every transition of the explored graphs is scanned for every sensitive value of the world in lower/upper hex and byte-list form".into();
    let mut v = families::c01_quick();
    v.extend(families::leaves());
    v.extend(families::c02_quick().into_iter().take(3));
    v.extend(families::c08_quick().into_iter().skip(2).take(2));
    v.extend(families::c03_quick().into_iter().take(2));
    if tier != "quick" {
        v.extend(families::c02_thorough());
        v.extend(families::chains(2, 2));
        v.extend(families::one_round(&["A", "B", "C", "Z"], &["A", "B"], 2, false));
    }
    let mut jobs = jobs_from(v);
    if tier != "quick" {
        jobs.extend(jobs_from(families::c01_quick()).into_iter().map(|j| j.backend(lab::Bk::Sqlite)));
    }
    // what is logged while the snapshot queue is rebuilt after a restart (SQLite)
    for (sc, _) in families::c01_quick().into_iter().take(if tier == "quick" { 2 } else { 6 }) {
        let mut j = E1Job::new(sc).backend(lab::Bk::Sqlite);
        j.regimes = vec![explore::Regime::Causal];
        j.with_restart = true;
        j.with_local_ops = false;
        j.members = Some(vec!["Z".into()]);
        jobs.push(j);
    }
    // invitations, including replayed and attacker-made ones (errors of refused invitations are scanned like the rest)
    {
        use scenario::{ActKind, act};
        let sc = families::base("invite", &["A", "B", "C", "Z"], &["A", "B"], &["D", "O"], vec![act("Z", ActKind::Msg("before-join".into()), 5), act("A", ActKind::Add("D".into()), 10).then(vec![act("Z", ActKind::Msg("after-join".into()), 5)])]);
        let mut j = E1Job::new(sc);
        j.regimes = vec![explore::Regime::Causal];
        j.members = Some(vec!["Z".into(), "D".into()]);
        j.with_welcomes = true;
        j.welcome_consent = 1;
        j.with_local_ops = false;
        j.prejoin = true;
        j.world_hook = Some(c16_hook);
        j.max_states = if tier == "quick" { 800 } else { 6000 };
        jobs.push(j);
    }
    run_e1(jobs, &|cx, rep, _| props_e1::check_c14(cx, rep), &mut rep);
    // the hostile inputs of C06, monitored
    c06::run(&mut rep, lab::Bk::Memory, tier != "quick");
    // recovery after a crash at every storage step (C12's rollback history), monitored
    crashx::check_c14_recovery(&mut rep);
    // opening a database with a key in hand, against every state of the file that makes the open fail (or succeed): whatever
    // comes back, as Display and as Debug, is scanned for the key in its encodings (seeded change C14-9: the PRAGMA text that
    // carries the key quoted in the error of an open that hits a locked database)
    {
        use mdk_sqlite_storage::{EncryptionConfig, MdkSqliteStorage};
        let key: [u8; 32] = core::array::from_fn(|i| 0x5a ^ (i as u8).wrapping_mul(7));
        let other: [u8; 32] = core::array::from_fn(|i| 0xa5 ^ (i as u8).wrapping_mul(11));
        let secrets = vec![("database-key".to_string(), key.to_vec())];
        let dir = lab::scratch_root().join("c14-open");
        let _ = std::fs::remove_dir_all(&dir);
        let _ = std::fs::create_dir_all(&dir);
        let enc_db = dir.join("enc.db");
        let made = MdkSqliteStorage::new_with_key(&enc_db, EncryptionConfig::new(key)).is_ok();
        let other_db = dir.join("other.db");
        let _ = MdkSqliteStorage::new_with_key(&other_db, EncryptionConfig::new(other));
        let plain_db = dir.join("plain.db");
        let _ = MdkSqliteStorage::new_unencrypted(&plain_db);
        let garbage = dir.join("garbage.db");
        let _ = std::fs::write(&garbage, vec![0x42u8; 8192]);
        let short = dir.join("short.db");
        let _ = std::fs::write(&short, b"SQLite format 3\0");
        let a_dir = dir.join("a-directory.db");
        let _ = std::fs::create_dir_all(&a_dir);
        let missing_parent = dir.join("no-such-dir").join("x.db");
        if !made {
            rep.machinery_errors.push("c14: cannot create the encrypted database".into());
        }
        let mut cases: Vec<(&str, std::path::PathBuf, Option<rusqlite::Connection>)> = vec![
            ("right-key", enc_db.clone(), None),
            ("encrypted-under-another-key", other_db.clone(), None),
            ("plaintext-database", plain_db.clone(), None),
            ("garbage-file", garbage.clone(), None),
            ("header-only-file", short.clone(), None),
            ("path-is-a-directory", a_dir.clone(), None),
            ("parent-directory-missing", missing_parent.clone(), None),
        ];
        // the right key, while another connection holds the write lock / the exclusive lock
        for (label, begin) in [("right-key-database-write-locked", "BEGIN IMMEDIATE"), ("right-key-database-exclusively-locked", "BEGIN EXCLUSIVE")] {
            let p = dir.join(format!("{label}.db"));
            let _ = std::fs::copy(&enc_db, &p);
            if let Ok(conn) = rusqlite::Connection::open(&p) {
                let ok = conn.execute_batch(&format!("PRAGMA key = \"x'{}'\";", hex::encode(key))).is_ok() && conn.query_row("SELECT count(*) FROM sqlite_master", [], |r| r.get::<_, i64>(0)).is_ok() && conn.execute_batch(begin).is_ok();
                if ok {
                    cases.push((label, p, Some(conn)));
                } else {
                    rep.machinery_errors.push(format!("c14: cannot lock the database for {label}"));
                }
            }
        }
        for (label, path, _holder) in &cases {
            let r = MdkSqliteStorage::new_with_key(path, EncryptionConfig::new(key));
            rep.evaluations += 1;
            rep.case(&format!("open-with-key|{label}|{}", if r.is_ok() { "ok" } else { "err" }));
            if let Err(e) = r {
                let recs = vec![format!("{e}"), format!("{e:?}")];
                for l in logcap::scan(&recs, &secrets) {
                    rep.finding(format!("C14|{l}|open-with-key|{label}"), format!("the error of opening a database ({label}) with a key carries that key: {l}"), serde_json::json!({"case": label}));
                }
            }
        }
        drop(cases);
        let _ = std::fs::remove_dir_all(&dir);
    }
    // Debug of the types the statement names
    {
        let enc = mdk_sqlite_storage::EncryptionConfig::new([0xEE; 32]);
        let s = format!("{enc:?}");
        rep.evaluations += 1;
        if s.to_lowercase().contains(&"ee".repeat(32)) || s.contains("238, 238, 238") {
            rep.finding("C14|database-key@Debug(EncryptionConfig)".into(), "Debug of EncryptionConfig prints the key".into(), serde_json::json!({"debug": s}));
        }
        let sec = mdk_storage_traits::Secret::new([0xDD; 32]);
        let s = format!("{sec:?}");
        rep.evaluations += 1;
        if s.to_lowercase().contains(&"dd".repeat(32)) || s.contains("221, 221, 221") {
            rep.finding("C14|secret@Debug(Secret)".into(), "Debug of Secret prints its content".into(), serde_json::json!({"debug": s}));
        }
    }
    rep.finish()
}

fn c20(tier: &str) -> i32 {
    let mut rep = Report::new("C20", tier, "model_checking");
    rep.rule = "state invariant on every state: stored snapshots <= retention, manager queue == stored names, no snapshot at/above current epoch, queue epochs increasing; distinct = distinct (stored count, queue length, epoch)".into();
    // retention 0..6 over fork chains (one beyond each depth), both backends, restarts on SQLite
    let mut v: Vec<(scenario::Scenario, bool)> = Vec::new();
    let rets: &[usize] = if tier == "quick" { &[0, 1, 2, 5] } else { &[0, 1, 2, 3, 5, 6] };
    for r in rets {
        let mut c = families::chains(if *r >= 2 { 3 } else { 2 }, *r);
        if tier == "quick" {
            c.truncate(2);
        }
        v.extend(c);
    }
    v.extend(families::c01_quick().into_iter().take(if tier == "quick" { 3 } else { 100 }));
    let mut jobs = jobs_from(v.clone());
    let sq: Vec<(scenario::Scenario, bool)> = if tier == "quick" { v.into_iter().take(4).collect() } else { v };
    jobs.extend(jobs_from(sq).into_iter().map(|j| { let mut j = j.backend(lab::Bk::Sqlite); j.with_restart = true; j.regimes = vec![explore::Regime::Causal]; j.members = Some(vec!["Z".into(), "B".into()]); j }));
    run_e1(jobs, &|cx, rep, _| props_e1::check_c20(cx, rep), &mut rep);
    scripted::c20_ttl(&mut rep, lab::Bk::Sqlite, None);
    scripted::c20_ttl(&mut rep, lab::Bk::Memory, None);
    scripted::c20_ttl(&mut rep, lab::Bk::Sqlite, Some(3600));
    // boundary values of the configured time-to-live: everything older than "now" / than one second ago goes at start-up
    scripted::c20_ttl(&mut rep, lab::Bk::Sqlite, Some(0));
    scripted::c20_ttl(&mut rep, lab::Bk::Sqlite, Some(1));
    scripted::c20_most_recent_after_restart(&mut rep);
    scripted::c20_retention_change(&mut rep);
    rep.finish()
}

fn c02(tier: &str) -> i32 {
    let mut rep = Report::new("C02", tier, "model_checking");
    rep.rule = "message scenarios; per edge: returned message == what the sender created; per state: the quiescent state it settles into (if it is the reference state) stores every winning-branch message exactly once, intact and processed (causal regime), and no losing-branch message valid; distinct = distinct (message class, copies, intact, state, convergence class)".into();
    let mut jobs = if tier == "quick" { jobs_from(families::c02_quick()) } else { jobs_from(families::c02_thorough()) };
    if tier != "quick" {
        jobs.extend(jobs_from(families::c02_quick()).into_iter().map(|j| j.backend(lab::Bk::Sqlite)));
    }
    // a message of the winning branch reaches a SQLite bystander that sits on the losing branch (refused, recorded), then the
    // winning commit (rollback): what the rollback names for another try comes out of the SQLite retry query
    if tier == "quick" {
        for (sc, _) in families::c02_quick().into_iter().filter(|(s, _)| s.name == "msg-on-winner-branch") {
            let mut j = E1Job::new(sc).backend(lab::Bk::Sqlite);
            j.regimes = vec![explore::Regime::Causal];
            j.members = Some(vec!["Z".into()]);
            j.with_local_ops = false;
            jobs.push(j);
        }
    }
    // a member's own message, still unconfirmed, on a branch that then loses (both backends: invalidation is a statement of its own in SQLite)
    {
        use scenario::{ActKind, act};
        let sc = families::base("own-unconfirmed-on-loser", &["A", "B", "Z"], &["A", "B"], &[], vec![act("A", ActKind::Rename("winner".into()), 10), act("B", ActKind::Rename("loser".into()), 20).then(vec![act("Z", ActKind::Msg("sent-on-the-losing-branch".into()), 5)])]);
        for bk in [lab::Bk::Memory, lab::Bk::Sqlite] {
            let mut j = E1Job::new(sc.clone()).backend(bk);
            j.regimes = vec![explore::Regime::Causal];
            j.members = Some(vec!["Z".into()]);
            jobs.push(j);
        }
    }
    // another member files a message of its own under the id of a stored message (the rumor's id field is the sender's to
    // fill in): whatever the order, the stored message keeps what its sender gave it
    {
        fn forged_id_hook(w: &mut scenario::World) {
            let Some(victim) = w.pool.iter().position(|p| p.kind == scenario::EvKind::Msg && p.node.is_empty() && p.rumor.is_some()) else { return };
            let forger = if w.pool[victim].author == "A" { "B" } else { "A" };
            let Some(c) = w.nodes.get(&vec![]).and_then(|n| n.clients.get(forger)).map(|c| c.fork()) else { return };
            let mut r = lab::rumor(&c.keys, "filed-under-another-message's-id", w.base_ts + 7);
            r.id = w.pool[victim].rumor.as_ref().and_then(|x| x.id);
            let gid = w.gid.clone();
            if let Ok(ev) = with_mdk!(c, m => m.create_message(&gid, r)) {
                w.pool.push(scenario::PoolEvent { label: format!("n.{forger}.msg-under-the-id-of-{}", w.pool[victim].label), event: ev, kind: scenario::EvKind::Msg, act: scenario::ActKind::Msg("forged-id".into()), author: forger.into(), node: vec![], child: None, ts: 7, rumor: None });
                let idx = w.pool.len() - 1;
                w.settle_order.push(idx);
            }
        }
        for (sc, _) in families::c02_quick().into_iter().filter(|(s, _)| s.name == "msg-bystander-race" || (tier != "quick" && s.name == "msg-across-commit")) {
            for bk in if tier == "quick" { vec![lab::Bk::Memory] } else { vec![lab::Bk::Memory, lab::Bk::Sqlite] } {
                let mut j = E1Job::new(sc.clone()).backend(bk);
                j.regimes = vec![explore::Regime::Causal];
                j.world_hook = Some(forged_id_hook);
                j.members = Some(vec!["Z".into(), "B".into()]);
                jobs.push(j);
            }
        }
    }
    // a proposal of the previous epoch (published before the commit that covers it) arrives or is offered again after the
    // commit and a message of the new epoch: the only branch there is, its messages stay stored and valid
    {
        use scenario::{ActKind, act};
        let sc = families::base("late-proposal-after-commit-and-message", &["A", "B", "C", "Z"], &["A", "B"], &[], vec![act("C", ActKind::Leave, 5), act("A", ActKind::CommitLeave("C.leave0".into()), 10).then(vec![act("A", ActKind::Msg("after-the-leave".into()), 20)])]);
        for bk in if tier == "quick" { vec![lab::Bk::Memory] } else { vec![lab::Bk::Memory, lab::Bk::Sqlite] } {
            let mut j = E1Job::new(sc.clone()).backend(bk);
            j.regimes = vec![explore::Regime::Causal];
            j.members = Some(vec!["Z".into()]);
            jobs.push(j);
        }
    }
    // forward window much larger than the tolerance (and the other way round in the thorough tier): per-delivery oracle only
    let mut fj = vec![families::fwd_jump(5, 1, 100)];
    if tier != "quick" {
        fj.push(families::fwd_jump(6, 2, 50));
        fj.push(families::fwd_jump(4, 0, 10));
    }
    for j in jobs_from(fj) {
        let mut j = j;
        j.regimes = vec![explore::Regime::Causal];
        j.with_local_ops = false;
        jobs.push(j);
    }
    run_e1(jobs, &|cx, rep, _| props_e1::check_c02(cx, rep), &mut rep);
    // the sender's own unconfirmed message in another group of the same client, across a rollback in this one
    scripted::c02_own_message_in_other_group(&mut rep, lab::Bk::Memory);
    scripted::c02_own_message_in_other_group(&mut rep, lab::Bk::Sqlite);
    rep.finish()
}

struct JobTimer(String, std::time::Instant);
impl Drop for JobTimer {
    fn drop(&mut self) {
        if std::env::var("VERIF_DEBUG_TIMES").is_ok() {
            eprintln!("TIME {} {:.1}s", self.0, self.1.elapsed().as_secs_f64());
        }
    }
}
fn scopeguard_print(name: String, t: std::time::Instant) -> JobTimer {
    JobTimer(name, t)
}

fn c11check(tier: &str) -> i32 {
    let mut rep = Report::new("C11", tier, "model_checking");
    rep.rule = "lock-step product search over pairs (never-restarted, shadow) of one member on SQLite; restart of the shadow enabled in every pair state (= every subset of restart positions of every explored history); per edge: equal result kinds; per pair state: equal observable fingerprint and equal database dump; distinct = distinct (action class, results, shadow restarted since last agreement)".into();
    let mut v = families::c01_quick();
    v.truncate(if tier == "quick" { 4 } else { 100 });
    v.extend(families::c02_quick().into_iter().take(if tier == "quick" { 2 } else { 100 }));
    // an earlier commit (an older snapshot exists), then a race
    v.push((families::base("commit-then-race", &["A", "B", "Z"], &["A", "B"], &[], vec![scenario::act("A", scenario::ActKind::Rename("pre".into()), 5).then(vec![scenario::act("A", scenario::ActKind::Rename("a".into()), 10), scenario::act("B", scenario::ActKind::Rename("b".into()), 20)])]), true));
    v.extend(families::c11_extra());
    if tier != "quick" {
        v.extend(families::chains(2, 2));
        v.extend(families::leaves());
    }
    // a commit the group refuses (a non-admin's rename) is offered somewhere in the history: what a refusal leaves behind
    // must not change how a later race is resolved after a restart (scenario name suffix "+refused-commit")
    for (sc, c) in families::c01_quick().into_iter().take(if tier == "quick" { 1 } else { 3 }) {
        let mut sc = sc;
        sc.name = format!("{}+refused-commit", sc.name);
        v.push((sc, c));
    }
    let jobs: Vec<(scenario::Scenario, bool)> = match std::env::var("VERIF_ONLY") { Ok(f) => v.into_iter().filter(|j| j.0.name.contains(&f)).collect(), Err(_) => v };
    // longest first
    let mut jobs = jobs;
    jobs.sort_by_key(|j| std::cmp::Reverse(j.0.name.contains("deep-rollback") as u8 + j.0.name.contains("refused") as u8));
    let next = std::sync::atomic::AtomicUsize::new(0);
    let out = std::sync::Mutex::new(Vec::new());
    let max_pairs = if tier == "quick" { 1500 } else { 20000 };
    std::thread::scope(|s| {
        for _ in 0..threads() {
            s.spawn(|| loop {
                let i = next.fetch_add(1, std::sync::atomic::Ordering::SeqCst);
                if i >= jobs.len() {
                    break;
                }
                let mut r = Report::new("C11", tier, "model_checking");
                let t_job = std::time::Instant::now();
                let _timer = scopeguard_print(jobs[i].0.name.clone(), t_job);
                match scenario::build_world(&jobs[i].0, lab::Bk::Sqlite) {
                    Ok(mut w) => {
                        if w.sc.name.ends_with("+refused-commit") {
                            hostile_commit_hook(&mut w);
                        }
                        let w = w;
                        let members: Vec<String> = if tier == "quick" { if w.sc.name.starts_with("deep-rollback") { vec!["Z".into()] } else { vec!["Z".into(), "B".into()] } } else { w.initial.keys().cloned().collect() };
                        // the members of one world side by side (the deepest scenario would otherwise decide the wall time)
                        let parts: std::sync::Mutex<Vec<Report>> = std::sync::Mutex::new(Vec::new());
                        std::thread::scope(|s2| {
                            for m in &members {
                                if w.initial.contains_key(m) {
                                    let (w, parts) = (&w, &parts);
                                    s2.spawn(move || {
                                        let mut rm = Report::new("C11", tier, "model_checking");
                                        c11::explore_pairs(w, m, explore::Regime::Causal, max_pairs, &mut rm);
                                        c11::linear_restarts(w, m, &mut rm);
                                        parts.lock().unwrap().push(rm);
                                    });
                                }
                            }
                        });
                        for rm in parts.into_inner().unwrap() {
                            r.merge(rm);
                        }
                    }
                    Err(e) => r.machinery_errors.push(format!("scenario {}: {}", jobs[i].0.name, e.0)),
                }
                out.lock().unwrap().push(r);
            });
        }
    });
    for r in out.into_inner().unwrap() {
        rep.merge(r);
    }
    c11::restart_hazards(&mut rep);
    rep.add_count("scenarios", jobs.len() as u64);
    rep.finish()
}

fn c03(tier: &str) -> i32 {
    let mut rep = Report::new("C03", tier, "model_checking");
    rep.rule = "membership histories; every observer (never-member with an unrelated group, ex-member, joiner, leaver) gets its own complete graph in the unrestricted regime over every wrapper and every welcome rumor ever published (process/accept/decline offered in every state); distinct = distinct (entitled, stored, record state)".into();
    let v = families::c03_quick();
    let mut jobs: Vec<E1Job> = Vec::new();
    for (sc, _) in v {
        let mut observers: Vec<String> = sc.outsiders.clone();
        // members that are removed / leave somewhere, and joiners, are found from the scenario text
        fn walk(n: &scenario::Node, out: &mut Vec<String>) {
            for a in &n.acts {
                match &a.kind {
                    scenario::ActKind::Remove(x) | scenario::ActKind::Add(x) => out.extend(x.split('+').map(|o| o.to_string())),
                    scenario::ActKind::Leave => out.push(a.actor.clone()),
                    _ => {}
                }
                if let Some(c) = &a.child {
                    walk(c, out);
                }
            }
        }
        walk(&sc.root, &mut observers);
        for (twin, of) in &sc.same_identity {
            if observers.contains(of) {
                observers.push(twin.clone());
            }
        }
        observers.sort();
        observers.dedup();
        let mut j = E1Job::new(sc);
        j.regimes = vec![explore::Regime::Unrestricted];
        j.members = Some(observers);
        j.with_welcomes = true;
        j.welcome_consent = if tier == "quick" { 1 } else { 2 };
        j.with_local_ops = false;
        if tier != "quick" {
            // SQLite forks cost a row copy each: one consent mode and a smaller state cap there (caps are reported)
            let mut js = j.clone().backend(lab::Bk::Sqlite);
            js.welcome_consent = 1;
            js.max_states = 4000;
            jobs.push(js);
        }
        jobs.push(j);
    }
    run_e1(jobs, &|cx, rep, _| props_e1::check_c03(cx, rep), &mut rep);
    // members' own graphs: a removal that wins a race against another member's commit; nobody who settles keeps the removed user
    {
        use scenario::{ActKind, act};
        let m = ["A", "B", "C", "X", "Z"];
        let ad = ["A", "B"];
        let mut v = vec![
            families::base("removal-wins-vs-selfupdate", &m, &ad, &[], vec![act("A", ActKind::Remove("X".into()), 10).then(vec![act("Z", ActKind::Msg("after-removal".into()), 5)]), act("C", ActKind::SelfUpdate, 20)]),
            families::base("removal-wins-vs-rename", &m, &ad, &[], vec![act("A", ActKind::Remove("X".into()), 10).then(vec![act("Z", ActKind::Msg("after-removal".into()), 5)]), act("B", ActKind::Rename("loser".into()), 20)]),
        ];
        // the committer of the losing commit also has a chat message of its own in flight: its echo is not the echo of the commit
        v.push(families::base("removal-wins-vs-selfupdate-with-own-message", &m, &ad, &[], vec![act("C", ActKind::Msg("before-the-race".into()), 5), act("A", ActKind::Remove("X".into()), 10), act("C", ActKind::SelfUpdate, 20)]));
        if tier != "quick" {
            v.push(families::base("removal-wins-on-tie", &m, &ad, &[], vec![act("A", ActKind::Remove("X".into()), 10).nib(1), act("B", ActKind::Rename("loser".into()), 10).nib(9)]));
        }
        let mut jobs2: Vec<E1Job> = Vec::new();
        for sc in v {
            for bk in if tier == "quick" { vec![lab::Bk::Memory] } else { vec![lab::Bk::Memory, lab::Bk::Sqlite] } {
                let mut j = E1Job::new(sc.clone()).backend(bk);
                j.regimes = vec![explore::Regime::Causal];
                j.members = Some(vec!["A".into(), "B".into(), "C".into(), "Z".into()]);
                jobs2.push(j);
            }
        }
        // the same race with restarts of the receiving client between the deliveries (SQLite): a removal that has been
        // applied stays applied when the losing commit arrives after a restart
        for sc in ["removal-wins-vs-selfupdate", "removal-wins-vs-rename"].iter().take(if tier == "quick" { 1 } else { 2 }) {
            let sc = match *sc {
                "removal-wins-vs-selfupdate" => families::base("removal-wins-vs-selfupdate", &m, &ad, &[], vec![act("A", ActKind::Remove("X".into()), 10), act("C", ActKind::SelfUpdate, 20)]),
                _ => families::base("removal-wins-vs-rename", &m, &ad, &[], vec![act("A", ActKind::Remove("X".into()), 10), act("B", ActKind::Rename("loser".into()), 20)]),
            };
            let mut j = E1Job::new(sc).backend(lab::Bk::Sqlite);
            j.regimes = vec![explore::Regime::Causal];
            j.with_restart = true;
            j.with_local_ops = false;
            j.members = Some(if tier == "quick" { vec!["Z".into()] } else { vec!["Z".into(), "B".into()] });
            jobs2.push(j);
        }
        // an admin's commit that is refused (undecodable group data, newest timestamp) is offered before the race: what a
        // refusal leaves behind must not decide the race between the removal and the losing commit
        {
            let sc = families::base("removal-wins-vs-rename+refused-commit", &["A", "B", "C", "X", "Z"], &["A", "B", "C"], &[], vec![act("A", ActKind::Remove("X".into()), 10), act("B", ActKind::Rename("loser".into()), 20)]);
            let mut j = E1Job::new(sc);
            j.regimes = vec![explore::Regime::Causal];
            j.world_hook = Some(undecodable_group_data_hook);
            j.with_local_ops = false;
            j.members = Some(vec!["Z".into()]);
            jobs2.push(j);
        }
        run_e1(jobs2, &|cx, rep, _| props_e1::check_c03_roster(cx, rep), &mut rep);
    }
    rep.finish()
}

fn c04check(tier: &str) -> i32 {
    let mut rep = Report::new("C04", tier, "model_checking");
    rep.rule = "full product: sender role {member, ex-member with stale state, outsider} x rumor pubkey {own, victim, outsider} x pre-set id {absent, correct, victim's message, own message, message of another group, arbitrary} x kind {9,1,5,445} x tags x created_at {0, now, far future}; every captured ciphertext re-wrapped under a fresh id with the same / another group's h tag in both orders; each delivered to the receiver in every base state; distinct = distinct (case, result)".into();
    c04::run(&mut rep, lab::Bk::Memory, tier != "quick");
    if tier != "quick" {
        c04::run(&mut rep, lab::Bk::Sqlite, true);
    }
    c04::cross_group_rollback(&mut rep, lab::Bk::Memory);
    c04::cross_group_rollback(&mut rep, lab::Bk::Sqlite);
    c04::resave_cases(&mut rep, lab::Bk::Memory);
    c04::resave_cases(&mut rep, lab::Bk::Sqlite);
    rep.finish()
}

fn c05check(tier: &str) -> i32 {
    let mut rep = Report::new("C05", tier, "model_checking");
    rep.rule = "receiver half: sender role {admin, non-admin, removed member with stale state} x commit content built directly with the OpenMLS commit builder {empty, path-only self-update, add, remove, rename, admin-set change, relay change, update path with another identity, by-reference commit of queued proposals, mixed} x foreign proposal queued or not x receiver role x base state, verdict and delta compared with what the scenario defines; stand-alone proposals of every kind; sender half: every foreign proposal kind queued at an honest admin x every admin operation; distinct = distinct (case, result)".into();
    c05::run(&mut rep, lab::Bk::Memory, tier != "quick");
    if tier != "quick" {
        c05::run(&mut rep, lab::Bk::Sqlite, true);
    }
    c05::tree_with_holes(&mut rep, lab::Bk::Memory);
    rep.finish()
}

/// adversarial invitations added to a built world: every original invitation replayed under a new wrapper id,
/// and for the silent member Z an invitation to an attacker-made group that reuses the MLS group id
fn c16_hook(w: &mut scenario::World) {
    let n = w.welcomes.len();
    for i in 0..n {
        let (_, r, who) = w.welcomes[i].clone();
        let wid = nostr::EventId::from_slice(&scenario::sha2_32(format!("replayed-wrapper-{i}").as_bytes())).unwrap();
        w.welcomes.push((wid, r, who));
        w.welcome_nodes.push(w.welcome_nodes[i].clone());
        w.welcome_kinds.push("replay-new-wrapper".into());
    }
    if let (Some(o), Some(kp)) = (w.initial.get("O"), w.key_packages.get("Z")) {
        if let Ok(r) = adversary::forged_group_welcome(o, &w.gid, kp, "forged", [0x66; 32]) {
            let wid = nostr::EventId::from_slice(&scenario::sha2_32(b"forged-wrapper")).unwrap();
            w.welcomes.push((wid, r, "Z".into()));
            w.welcome_nodes.push(vec![usize::MAX]);
            w.welcome_kinds.push("forged-same-mls-group-id".into());
        }
        // an unrelated attacker group X, invited twice; the second invitation claims the Nostr group id of the real group
        let xid = mdk_storage_traits::GroupId::from_slice(&[0x58; 16]);
        let real_h = w.initial.get("Z").and_then(|z| adversary::nostr_group_id_of(z, &w.gid));
        let o1 = o.fork();
        if let (Ok(r1), Some(h)) = (adversary::forged_group_welcome(&o1, &xid, kp, "x-first", [0x67; 32]), real_h) {
            let wid = nostr::EventId::from_slice(&scenario::sha2_32(b"forged-x1")).unwrap();
            w.welcomes.push((wid, r1, "Z".into()));
            w.welcome_nodes.push(vec![usize::MAX]);
            w.welcome_kinds.push("forged-unrelated-group".into());
            // a second, different group under the same MLS group id needs its own attacker state
            let o2 = o.fork();
            if let Ok(r2) = adversary::forged_group_welcome(&o2, &xid, kp, "x-second", h) {
                let wid = nostr::EventId::from_slice(&scenario::sha2_32(b"forged-x2")).unwrap();
                w.welcomes.push((wid, r2, "Z".into()));
                w.welcome_nodes.push(vec![usize::MAX]);
                w.welcome_kinds.push("forged-unrelated-group-claiming-our-nostr-id".into());
            }
        }
    }
}

fn c16check(tier: &str) -> i32 {
    let mut rep = Report::new("C16", tier, "model_checking");
    rep.rule = "invitation kinds {original, replayed under a new wrapper id, attacker-made group reusing the MLS group id} x recipient {not a member, pending, active, inactive/evicted} x every position in the group's history (process/accept/decline enabled in every state of the recipient's graph); distinct = distinct (action, kind, own, recipient state, result, resulting state)".into();
    let m = ["A", "B", "C", "Z"];
    let ad = ["A", "B"];
    use scenario::{ActKind, act};
    let msg = |a: &str, c: &str| act(a, ActKind::Msg(c.into()), 5);
    let mut v: Vec<scenario::Scenario> = Vec::new();
    v.push(families::base("invite", &m, &ad, &["D", "O"], vec![msg("Z", "before-join"), act("A", ActKind::Add("D".into()), 10).then(vec![msg("Z", "after-join"), act("A", ActKind::Rename("later".into()), 20)])]));
    v.push(families::base("reinvite", &m, &ad, &["O"], vec![act("A", ActKind::Remove("C".into()), 10).then(vec![act("A", ActKind::Add("C".into()), 20).then(vec![msg("Z", "back-in")])])]));
    if tier != "quick" {
        v.push(families::base("evict-then-traffic", &m, &ad, &["O"], vec![act("A", ActKind::Remove("C".into()), 10).then(vec![msg("Z", "after-removal")])]));
        v.push(families::base("invite-race", &m, &ad, &["D", "O"], vec![act("A", ActKind::Add("D".into()), 10).then(vec![msg("Z", "on-winner")]), act("B", ActKind::Rename("loser".into()), 20)]));
    }
    let mut jobs: Vec<E1Job> = Vec::new();
    for sc in v {
        let mut members: Vec<String> = if sc.name == "reinvite" && tier == "quick" { vec![] } else { vec!["Z".into()] };
        for x in ["D", "C"] {
            if sc.outsiders.iter().any(|o| o == x) || sc.name.contains("evict") || sc.name.contains("reinvite") {
                members.push(x.into());
            }
        }
        let mut j = E1Job::new(sc);
        j.regimes = vec![explore::Regime::Causal];
        j.members = Some(members);
        j.with_welcomes = true;
        j.welcome_consent = if tier == "quick" { 1 } else { 2 };
        j.with_local_ops = false;
        j.prejoin = true;
        j.world_hook = Some(c16_hook);
        // every frontier state keeps a live client: the caps bound memory (reported in the evidence when hit)
        j.max_states = if tier == "quick" { 1500 } else { 6000 };
        // a fork on SQLite copies the database: one consent mode and a small cap there (quick: the active recipient only)
        if tier != "quick" || j.sc.name == "invite" {
            let mut js = j.clone().backend(lab::Bk::Sqlite);
            js.max_states = if tier == "quick" { 250 } else { 1200 };
            js.welcome_consent = 1;
            if tier == "quick" {
                js.members = Some(vec!["Z".into()]);
            }
            jobs.push(js);
        }
        jobs.push(j);
    }
    // a member that has rotated its key, is removed and invited again, explored from the state in which it has
    // published its new key package (both backends: the rotation state is a column of its own in SQLite)
    {
        let sc = families::base("reinvite-after-rotation", &m, &ad, &["O"], vec![act("C", ActKind::SelfUpdate, 5).then(vec![act("A", ActKind::Remove("C".into()), 10).then(vec![act("A", ActKind::Add("C".into()), 20).then(vec![msg("Z", "back-in")])])])]);
        for bk in [lab::Bk::Memory, lab::Bk::Sqlite] {
            let mut j = E1Job::new(sc.clone()).backend(bk);
            j.regimes = vec![explore::Regime::Causal];
            j.members = Some(vec!["C".into()]);
            j.with_welcomes = true;
            j.welcome_consent = 1;
            j.with_local_ops = false;
            j.prejoin = true;
            j.rejoin = true;
            j.max_states = if tier == "quick" { 600 } else { 6000 };
            jobs.push(j);
        }
    }
    run_e1(jobs, &|cx, rep, _| props_e1::check_c16(cx, rep), &mut rep);
    // what a joiner does next: its rotation obligation survives every other commit of its own; its own invitations work
    for bk in [lab::Bk::Memory, lab::Bk::Sqlite] {
        scripted::c16_joiner_goes_on(&mut rep, bk);
    }
    // an accept that fails (the key package the invitation was addressed to is gone by then) never yields an active group
    for bk in if tier == "quick" { vec![lab::Bk::Memory] } else { vec![lab::Bk::Memory, lab::Bk::Sqlite] } {
        let sc = families::base("invite-accept-fails", &m, &ad, &["D"], vec![act("A", ActKind::Add("D".into()), 10)]);
        let Ok(w) = scenario::build_world(&sc, bk) else {
            rep.machinery_errors.push("c16 invite-accept-fails world".into());
            continue;
        };
        let (Some(d), Some(kp_ev), Some((wid, rumor, _))) = (w.prejoin.get("D"), w.key_packages.get("D"), w.welcomes.iter().find(|x| x.2 == "D")) else { continue };
        let d = d.fork();
        let processed = with_mdk!(d, mm => mm.process_welcome(wid, rumor));
        let Ok(wl) = processed else {
            rep.machinery_errors.push("c16 invite-accept-fails: process_welcome".into());
            continue;
        };
        let deleted = with_mdk!(d, mm => mm.parse_key_package(kp_ev).and_then(|kp| mm.delete_key_package_from_storage(&kp))).is_ok();
        let res = with_mdk!(d, mm => mm.accept_welcome(&wl));
        let state = d.group_obs(&w.gid).map(|o| o.record_state).unwrap_or_else(|| "no-group".into());
        let wstate = with_mdk!(d, mm => mm.get_welcome(&wl.id)).ok().flatten().map(|x| x.state.as_str().to_string()).unwrap_or_default();
        rep.case(&format!("accept-fails|{bk:?}|deleted={deleted}|accept={}|group={state}|welcome={wstate}", if res.is_ok() { "ok" } else { "err" }));
        rep.evaluations += 1;
        if res.is_err() && (state == "active" || wstate == "accepted") {
            rep.finding(
                format!("C16|failed-accept-left-its-mark|group={state}|welcome={wstate}"),
                format!("accept_welcome fails ({:?}) after the key package was deleted, yet the group is {state} and the welcome {wstate}", res.err().map(|e| lab::err_variant(&e))),
                serde_json::json!({"backend": format!("{bk:?}")}),
            );
        }
    }
    // a stale invitation is declined after the Nostr group id it carries has moved on to another group the user is
    // active in: declining touches the invitation's own group only
    for bk in if tier == "quick" { vec![lab::Bk::Memory] } else { vec![lab::Bk::Memory, lab::Bk::Sqlite] } {
        use mdk_core::prelude::*;
        let cfg = lab::Cfg::default();
        let (u, p, q) = (lab::Client::new("U", bk, &cfg), lab::Client::new("P", lab::Bk::Memory, &cfg), lab::Client::new("Q", lab::Bk::Memory, &cfg));
        let mut ok = true;
        let mut step = |name: &str, good: bool, rep: &mut Report| {
            if !good && ok {
                rep.machinery_errors.push(format!("c16 stale-decline history: step {name} failed"));
                ok = false;
            }
        };
        let wid = |s: &str| nostr::EventId::from_slice(&scenario::sha2_32(s.as_bytes())).unwrap();
        // 1. invitation #1 to H while H carries id Z; left unanswered
        let cfgd = NostrGroupConfigData::new("H".into(), "h".into(), None, None, None, vec![lab::relay("wss://h.example")], vec![p.pk()]);
        let h = with_mdk!(p, m => m.create_group(&p.pk(), vec![u.key_package_event()], cfgd));
        let Ok(h) = h else { rep.machinery_errors.push("c16 stale-decline: create H".into()); continue };
        let hid = h.group.mls_group_id.clone();
        let z_id = h.group.nostr_group_id;
        let _ = with_mdk!(p, m => m.merge_pending_commit(&hid));
        let w1 = with_mdk!(u, m => m.process_welcome(&wid("w1"), &h.welcome_rumors[0]));
        step("process w1", w1.is_ok(), &mut rep);
        let Ok(w1) = w1 else { continue };
        // 2. H moves to id Y and invites the user again
        let y_id = [0xE7u8; 32];
        let r = with_mdk!(p, m => m.update_group_data(&hid, mdk_core::groups::NostrGroupDataUpdate::new().nostr_group_id(y_id)));
        step("rotate H", r.is_ok(), &mut rep);
        let _ = with_mdk!(p, m => m.merge_pending_commit(&hid));
        let r = with_mdk!(p, m => m.remove_members(&hid, &[u.pk()]));
        step("remove U from H", r.is_ok(), &mut rep);
        let _ = with_mdk!(p, m => m.merge_pending_commit(&hid));
        let r = with_mdk!(p, m => m.add_members(&hid, &[u.key_package_event()]));
        step("re-add U to H", r.is_ok(), &mut rep);
        let _ = with_mdk!(p, m => m.merge_pending_commit(&hid));
        if let Ok(r) = r {
            if let Some(rumors) = r.welcome_rumors {
                let w2 = with_mdk!(u, m => m.process_welcome(&wid("w2"), &rumors[0]));
                step("process w2", w2.is_ok(), &mut rep);
            }
        }
        // 3. G takes the id H gave up; the user joins G
        let cfgd = NostrGroupConfigData::new("G".into(), "g".into(), None, None, None, vec![lab::relay("wss://g.example")], vec![q.pk()]);
        let g = with_mdk!(q, m => m.create_group(&q.pk(), vec![], cfgd));
        let Ok(g) = g else { rep.machinery_errors.push("c16 stale-decline: create G".into()); continue };
        let gid2 = g.group.mls_group_id.clone();
        let r = with_mdk!(q, m => m.update_group_data(&gid2, mdk_core::groups::NostrGroupDataUpdate::new().nostr_group_id(z_id)));
        step("G takes the id", r.is_ok(), &mut rep);
        let _ = with_mdk!(q, m => m.merge_pending_commit(&gid2));
        let r = with_mdk!(q, m => m.add_members(&gid2, &[u.key_package_event()]));
        step("add U to G", r.is_ok(), &mut rep);
        let _ = with_mdk!(q, m => m.merge_pending_commit(&gid2));
        let mut joined = false;
        if let Ok(r) = r {
            if let Some(rumors) = r.welcome_rumors {
                if let Ok(w3) = with_mdk!(u, m => m.process_welcome(&wid("w3"), &rumors[0])) {
                    joined = with_mdk!(u, m => m.accept_welcome(&w3)).is_ok();
                }
            }
        }
        step("U joins G", joined, &mut rep);
        if !ok {
            continue;
        }
        // 4. the stale invitation #1 is declined
        let before = u.group_obs(&gid2).map(|o| o.record_state).unwrap_or_default();
        let res = with_mdk!(u, m => m.decline_welcome(&w1));
        let after = u.group_obs(&gid2).map(|o| o.record_state).unwrap_or_default();
        let h_after = u.group_obs(&hid).map(|o| o.record_state).unwrap_or_else(|| "none".into());
        rep.case(&format!("stale-decline|{bk:?}|{}|G:{before}->{after}|H:{h_after}", if res.is_ok() { "ok" } else { "err" }));
        rep.evaluations += 1;
        if before == "active" && after != "active" {
            rep.finding(
                format!("C16|declining-a-stale-invitation-disabled-another-group|G={after}|H={h_after}"),
                format!("invitation #1 to H (unanswered) carries the Nostr id that H has since given up and group G (joined, active) has taken; declining it ({}) leaves G {after} and H {h_after}", if res.is_ok() { "Ok" } else { "Err" }),
                serde_json::json!({"backend": format!("{bk:?}")}),
            );
        }
    }
    rep.finish()
}

#[allow(dead_code)]
pub fn bench_storex() {
    use std::time::Instant;
    let t = Instant::now();
    for _ in 0..200 { let _ = mdk_memory_storage::MdkMemoryStorage::default(); }
    eprintln!("memory default: {:?}/op", t.elapsed() / 200);
    let t = Instant::now();
    for _ in 0..200 { let _ = mdk_sqlite_storage::MdkSqliteStorage::verif_new_in_memory().unwrap(); }
    eprintln!("sqlite in-memory: {:?}/op", t.elapsed() / 200);
    let (a, pools) = storex::alphabet("messages", false);
    let mem = mdk_memory_storage::MdkMemoryStorage::default();
    let sql = mdk_sqlite_storage::MdkSqliteStorage::verif_new_in_memory().unwrap();
    for op in a.iter().take(5) { storex::apply(&mem, op); storex::apply(&sql, op); }
    let t = Instant::now();
    for _ in 0..50 { let _ = storex::reads(&mem, &pools); }
    eprintln!("reads memory: {:?}", t.elapsed() / 50);
    let t = Instant::now();
    for _ in 0..50 { let _ = storex::reads(&sql, &pools); }
    eprintln!("reads sqlite: {:?}", t.elapsed() / 50);
}
